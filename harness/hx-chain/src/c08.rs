//! C08: the importer runs in a child process over an on-disk DB and is killed
//! (process abort, hook in ckb-db) at a chosen write to the database; the
//! parent re-opens the DB, lets the start-up recovery run, checks the stored
//! state, redelivers everything and compares with a run that never crashed.
use crate::c02::{diff_dumps, dump_store, replay};
use crate::hist::*;
use crate::node::*;
use ckb_store::ChainStore;
use ckb_types::core::BlockView;
use ckb_types::packed::{self, Byte32};
use ckb_types::prelude::*;
use hx_common::*;
use serde_json::{json, Value};
use std::collections::{BTreeMap, BTreeSet, HashMap};
use std::path::{Path, PathBuf};
use std::process::Command;
use std::time::{Duration, Instant};

pub struct Out {
    pub viol: Vec<Value>,
    pub evaluations: u64,
    pub distinct: BTreeSet<String>,
    pub stats: BTreeMap<String, u64>,
    pub samples: Vec<Value>,
}

fn cfg_json(cfg: &ChainCfg) -> Value {
    json!({"gel": cfg.genesis_epoch_length, "w0": cfg.window.0, "w1": cfg.window.1})
}
fn cfg_from(v: &Value) -> ChainCfg {
    ChainCfg { genesis_epoch_length: v["gel"].as_u64().unwrap(), window: (v["w0"].as_u64().unwrap(), v["w1"].as_u64().unwrap()), ..Default::default() }
}

/// child: import the blocks found in `dir/blocks` into the node at `dir/node`
pub fn child(dir: &Path) -> ! {
    let spec: Value = serde_json::from_str(&std::fs::read_to_string(dir.join("spec.json")).unwrap()).unwrap();
    let cfg = cfg_from(&spec["cfg"]);
    let (consensus, _) = make_consensus(&cfg);
    let n = spec["blocks"].as_u64().unwrap();
    let async_mode = spec["async"].as_bool().unwrap_or(false);
    let node = Node::on_disk(&consensus, &dir.join("node"), false);
    let mut rxs = vec![];
    for i in 0..n {
        let raw = std::fs::read(dir.join("blocks").join(format!("b{i}.bin"))).unwrap();
        let b = packed::BlockReader::from_compatible_slice(&raw).unwrap().to_entity().into_view();
        if async_mode {
            rxs.push(node.deliver(&b));
        } else {
            let _ = node.process(&b);
            let _ = std::fs::write(dir.join("progress"), format!("{}", i + 1));
        }
    }
    let t0 = Instant::now();
    for rx in rxs {
        let _ = rx.recv_timeout(Duration::from_secs(20).saturating_sub(t0.elapsed()).max(Duration::from_millis(50)));
    }
    node.stop();
    std::process::exit(0)
}

fn write_case(dir: &Path, cfg: &ChainCfg, blocks: &[BlockView], async_mode: bool) {
    let _ = std::fs::remove_dir_all(dir);
    std::fs::create_dir_all(dir.join("blocks")).unwrap();
    for (i, b) in blocks.iter().enumerate() {
        std::fs::write(dir.join("blocks").join(format!("b{i}.bin")), b.data().as_slice()).unwrap();
    }
    std::fs::write(dir.join("spec.json"), json!({"cfg": cfg_json(cfg), "blocks": blocks.len(), "async": async_mode}).to_string()).unwrap();
}

fn run_child(dir: &Path, crash_at: Option<u64>, log: Option<&Path>) -> Option<i32> {
    let exe = crate::self_exe();
    let mut c = Command::new(exe);
    c.arg("C08-child").arg(dir);
    c.env_remove("VERIF_CRASH_AT").env_remove("VERIF_CRASH_LOG");
    if let Some(n) = crash_at { c.env("VERIF_CRASH_AT", n.to_string()); }
    if let Some(l) = log { c.env("VERIF_CRASH_LOG", l); }
    c.stdout(std::process::Stdio::null());
    match std::fs::File::create(dir.join("child.err")) {
        Ok(f) => { c.stderr(f); }
        Err(_) => { c.stderr(std::process::Stdio::null()); }
    }
    let st = c.status().expect("spawn child");
    st.code()
}

fn wait_startup(node: &Node) {
    let t0 = Instant::now();
    while node.chain().is_verifying_unverified_blocks_on_startup() && t0.elapsed() < Duration::from_secs(180) {
        std::thread::sleep(Duration::from_millis(2));
    }
    // let the queued re-verifications drain: tip stable for a while
    let mut last = node.tip().hash();
    let mut stable = Instant::now();
    while stable.elapsed() < Duration::from_millis(150) && t0.elapsed() < Duration::from_secs(240) {
        std::thread::sleep(Duration::from_millis(5));
        let now = node.tip().hash();
        if now != last { last = now; stable = Instant::now(); }
    }
}

fn u256_u128(x: &ckb_types::U256) -> u128 { format!("{}", x).parse().unwrap() }

pub fn run(seed: u64, thorough: bool, out_dir: &Path, scratch: &Path) -> Out {
    let mut rng = Rng::new(seed ^ 0xC08);
    let mut out = Out { viol: vec![], evaluations: 0, distinct: BTreeSet::new(), stats: BTreeMap::new(), samples: vec![] };
    let header = "From CKB Require Import Chain.Crash Chain.Recover.";
    let mut cf = CaseFile::new(out_dir, "cases_00", header);
    cf.group("crash", "ccase", "check_ccase");
    cf.group("recover", "rcase", "check_rcase");
    let mut descs: BTreeMap<String, Vec<Value>> = BTreeMap::new();
    let n_hist = hx_common::shard_share(if thorough { 24 } else { 3 });
    let max_points = if thorough { 400 } else { 45 };
    let n_directed = hx_common::shard_share(if thorough { 6 } else { 1 });
    for hi in 0..n_hist + n_directed {
        // ---- directed histories: a heavy short branch is the tip while a lighter, longer branch is imported;
        //      cut right after a block that lands two or more heights above the tip (start-up recovery
        //      scans upwards from the tip and stops at the first height without an unverified block)
        let directed: Option<(ChainCfg, Vec<BlockView>, Value)> = if hi >= n_hist {
            let mut found = None;
            for _try in 0..12 {
                let tree = crate::tree::gen_tree_heavy_vs_light(&mut rng);
                let gel = tree.consensus.genesis_epoch_ext().length();
                let probe = Node::temp(&tree.consensus);
                let mut cut = None;
                for (i, nd) in tree.nodes.iter().enumerate() {
                    let t = probe.tip().number();
                    if nd.block.number() >= t + 2 && cut.is_none() { cut = Some(i); }
                    let _ = probe.process(&nd.block);
                }
                probe.stop();
                if let Some(i) = cut {
                    let blocks: Vec<BlockView> = tree.nodes[..=i].iter().map(|n| n.block.clone()).collect();
                    found = Some((ChainCfg { genesis_epoch_length: gel, ..Default::default() }, blocks, json!([{"directed": "heavy short branch is the tip, a lighter longer branch is imported", "genesis_epoch_length": gel, "blocks": i + 1}])));
                    break;
                }
            }
            match found { Some(f) => Some(f), None => { *out.stats.entry("directed_history_not_found".into()).or_default() += 1; continue; } }
        } else { None };
        // ---- a history with transactions and forks, generated on a scratch node
        let cfg = match &directed { Some((c, _, _)) => c.clone(), None => ChainCfg { window: *rng.pick(&[(1u64, 2u64), (2, 4)]), genesis_epoch_length: *rng.pick(&[5u64, 1000]), ..Default::default() } };
        let mut h = Hist::new(cfg.clone(), scratch.join(format!("gen{hi}")), false);
        let mut noop = |_: &Hist, _: &Change| {};
        let target = rng.range(8, if thorough { 22 } else { 14 });
        let mut guard = 0;
        if let Some((_, dblocks, j)) = &directed {
            // the scratch node imports the directed blocks; Hist only keeps the books
            for b in dblocks {
                let _ = h.node().process(b);
                let id = h.blocks.len() as u64 + 1;
                h.block_id.insert(b.hash(), id);
                for tx in b.transactions() { let n = h.tx_id.len() as u64 + 1; h.tx_id.entry(tx.hash()).or_insert(n); }
                h.blocks.push(b.clone());
            }
            h.jops = j.as_array().cloned().unwrap_or_default();
            *out.stats.entry("directed_histories".into()).or_default() += 1;
        }
        while directed.is_none() && (h.blocks.len() as u64) < target && guard < 60 {
            guard += 1;
            let tip = h.node().tip().number();
            let r = if tip >= 2 && rng.chance(1, 3) {
                let back = rng.range(1, 4);
                let from = rng.range(tip.saturating_sub(back), tip - 1);
                let extra = rng.range(1, 2);
                h.fork(&mut rng, from, tip - from + extra, &mut noop)
            } else {
                h.extend(&mut rng, &mut noop)
            };
            if let Err(e) = r { out.viol.push(json!({"what": e, "detail": {"history": h.jops}})); break; }
        }
        let blocks: Vec<BlockView> = h.blocks.clone();
        let block_id = h.block_id.clone();
        let tx_id = h.tx_id.clone();
        let final_main: Vec<u64> = h.main_chain();
        let final_tip = h.node().tip();
        let final_td = u256_u128(&h.node().total_difficulty());
        let consensus = h.consensus.clone();
        let gtd = u256_u128(&consensus.genesis_block().header().difficulty());
        let jhist = h.jops.clone();
        for (k, v) in h.stats.clone() { *out.stats.entry(k).or_default() += v; }
        h.finish();
        let parent_of: HashMap<u64, u64> = blocks.iter().map(|b| (block_id[&b.hash()], *block_id.get(&b.parent_hash()).unwrap_or(&0))).collect();

        let async_mode = rng.chance(1, 3);
        let case_dir = scratch.join(format!("case{hi}"));
        // ---- reference run in a child without a crash: count the crash points
        write_case(&case_dir, &cfg, &blocks, async_mode);
        let log = case_dir.join("points.log");
        let code = run_child(&case_dir, None, Some(&log));
        let points: Vec<String> = std::fs::read_to_string(&log).unwrap_or_default().lines().map(|l| l.to_string()).collect();
        if code != Some(0) || points.is_empty() {
            let err = std::fs::read_to_string(case_dir.join("child.err")).unwrap_or_default();
            out.viol.push(json!({"what": format!("the reference import (no crash) did not finish: exit {:?}, {} write points", code, points.len()), "detail": {"history": jhist, "stderr_tail": err.chars().rev().take(600).collect::<String>().chars().rev().collect::<String>()}}));
            continue;
        }
        *out.stats.entry("write_points".into()).or_default() += points.len() as u64;
        let total = points.len() as u64;
        let mut chosen: Vec<u64> = (1..=total).collect();
        if chosen.len() as u64 > max_points {
            // keep every point of the first and last quarter, sample the middle
            let mut keep = BTreeSet::new();
            for p in 1..=max_points / 3 { keep.insert(p); keep.insert(total + 1 - p); }
            while (keep.len() as u64) < max_points { keep.insert(rng.range(1, total)); }
            chosen = keep.into_iter().collect();
        }
        // point 0 = a directed state no single-block delivery reaches: the insert thread was several blocks
        // ahead of the verify thread when the process died (the last 2..4 main-chain blocks are stored as
        // ChainService::insert_block stores them, without any verification record)
        if final_main.len() >= 6 { chosen.insert(0, 0); }
        for at in chosen {
            let label = if at == 0 { "backlog-of-stored-unverified-blocks".to_string() } else { points[at as usize - 1].split(' ').nth(1).unwrap_or("").to_string() };
            write_case(&case_dir, &cfg, &blocks, async_mode);
            let code = if at == 0 {
                let node = Node::on_disk(&consensus, &case_dir.join("node"), false);
                let main_blocks: Vec<BlockView> = final_main.iter().skip(1).map(|id| blocks[*id as usize - 1].clone()).collect();
                let m = 2 + (hi as usize % 3);
                let k = main_blocks.len() - m;
                for b in &main_blocks[..k] { let _ = node.process(b); }
                // ... and a block stored long ago that never got a verification record (ChainService stores a block before it
                // looks for its parent: a side block whose verification was still queued, an orphan whose parent never came)
                // sits some heights BELOW the tip, with heights that have nothing unverified between it and the backlog
                {
                    let on_main: std::collections::HashSet<Byte32> = main_blocks.iter().map(|b| b.hash()).collect();
                    if let Some(sb) = blocks.iter().find(|b| !on_main.contains(&b.hash()) && b.number() >= 1 && b.number() + 2 <= k as u64) {
                        let txn = node.shared.store().begin_transaction();
                        txn.insert_block(sb).expect("insert_block");
                        txn.commit().expect("commit");
                        *out.stats.entry("backlog_states_with_an_old_unverified_block_below_the_tip".into()).or_default() += 1;
                    }
                }
                for b in &main_blocks[k..] {
                    let txn = node.shared.store().begin_transaction();
                    txn.insert_block(b).expect("insert_block");
                    txn.commit().expect("commit");
                }
                node.stop();
                None
            } else { run_child(&case_dir, Some(at), None) };
            out.evaluations += 1;
            *out.stats.entry(format!("crash_{label}")).or_default() += 1;
            if code == Some(0) { *out.stats.entry("crash_point_not_reached".into()).or_default() += 1; }
            let progress: u64 = std::fs::read_to_string(case_dir.join("progress")).ok().and_then(|s| s.trim().parse().ok()).unwrap_or(0);
            let ctx = json!({"history": jhist, "crash_at_write_point": at, "point": label, "of": total, "async": async_mode, "blocks_completed_before_crash": progress});
            note_history(&[ctx.clone()]);
            let r = std::panic::catch_unwind(std::panic::AssertUnwindSafe(|| {
                let mut viol: Vec<Value> = vec![];
                // ---- restart
                // what the start-up recovery will find: stored blocks without a record, by height in hash order
                let pre = Node::peek(&consensus, &case_dir.join("node"), |sh| {
                    let st = sh.store();
                    let mut unv: BTreeMap<u64, Vec<(Vec<u8>, u64)>> = BTreeMap::new();
                    let mut parent: Vec<(u64, u64)> = vec![];
                    let mut recorded: Vec<u64> = vec![0];
                    for b in &blocks {
                        let id = block_id[&b.hash()];
                        if st.get_block_ext(&b.hash()).is_some() { recorded.push(id); }
                        else if st.get_block_header(&b.hash()).is_some() {
                            unv.entry(b.number()).or_default().push((b.hash().as_slice().to_vec(), id));
                            parent.push((id, *block_id.get(&b.parent_hash()).unwrap_or(&0)));
                        }
                    }
                    for v in unv.values_mut() { v.sort(); }
                    (unv, parent, recorded, st.get_tip_header().map(|t| t.number()).unwrap_or(0))
                });
                let node = Node::on_disk(&consensus, &case_dir.join("node"), false);
                wait_startup(&node);
                // let the re-submitted blocks get through the import pipeline
                {
                    let pending = |n: &Node| pre.0.values().flatten().filter(|(_, id)| n.shared.store().get_block_ext(&blocks[*id as usize - 1].hash()).is_none()).count();
                    let (mut last, mut since, t0) = (pending(&node), Instant::now(), Instant::now());
                    while since.elapsed() < Duration::from_millis(400) && t0.elapsed() < Duration::from_secs(120) {
                        std::thread::sleep(Duration::from_millis(10));
                        let now = pending(&node);
                        if now != last { last = now; since = Instant::now(); }
                    }
                }
                let picked: Vec<u64> = pre.0.values().flatten().filter(|(_, id)| node.shared.store().get_block_ext(&blocks[*id as usize - 1].hash()).is_some()).map(|(_, id)| *id).collect();
                let rcase = format!("mkRC {} {} {} {} 1 {} {}",
                    coq_list(&pre.0.iter().collect::<Vec<_>>(), |(h, v)| format!("({}, {})", coq_nat(**h), coq_list(v, |(_, id)| coq_n(*id as u128)))),
                    coq_list(&pre.1, |(a, b)| format!("({}, {})", coq_n(*a as u128), coq_n(*b as u128))),
                    coq_list(&pre.2, |x| coq_n(*x as u128)), coq_nat(pre.3), coq_nat(pre.3 + 200), coq_list(&picked, |x| coq_n(*x as u128)));
                let n_unv: usize = pre.0.values().map(|v| v.len()).sum();
                let snap = node.shared.snapshot();
                let td_restart = u256_u128(snap.total_difficulty());
                // C02 consistency of what is stored
                let main: Vec<BlockView> = (0..=snap.tip_number()).map(|n| snap.get_block(&snap.get_block_hash(n).expect("index")).expect("block")).collect();
                let got = dump_store(node.shared.store(), &block_id, &tx_id);
                let want = replay(&main, &block_id, &tx_id);
                if let Some(msg) = diff_dumps(&got, &want) {
                    viol.push(json!({"what": format!("after a crash and restart: {msg}"), "detail": ctx}));
                }
                // the epoch the restarted node works with is the epoch of its tip block
                {
                    let st = node.shared.store();
                    let tip_hash = snap.tip_hash();
                    let want = st.get_block_epoch_index(&tip_hash).and_then(|i| st.get_epoch_ext(&i));
                    if want.is_none() || Some(snap.epoch_ext().clone()) != want || st.get_current_epoch_ext() != want {
                        viol.push(json!({"what": "after the restart the current epoch (stored record / snapshot) is not the epoch of the tip block", "detail": {"case": ctx,
                            "tip_epoch_last_hash_prev": want.as_ref().map(|e| format!("{:x}", e.last_block_hash_in_previous_epoch())),
                            "stored_last_hash_prev": st.get_current_epoch_ext().map(|e| format!("{:x}", e.last_block_hash_in_previous_epoch()))}}));
                    }
                }
                // the proposal view rebuilt at start-up is the window over the stored main chain
                {
                    let w = (cfg.window.0, cfg.window.1);
                    if { let (want, got) = crate::c20::views_raw(&node, w); want != got } {
                        viol.push(json!({"what": "after the restart the snapshot's proposal view (set, gap) is not the proposal window over the stored main chain", "detail": ctx}));
                    }
                }
                // stored-but-unverified blocks whose parent is verified must have been picked up
                for b in &blocks {
                    let stored = node.shared.store().get_block_header(&b.hash()).is_some();
                    let has_ext = node.shared.store().get_block_ext(&b.hash()).is_some();
                    let parent_ext = node.shared.store().get_block_ext(&b.parent_hash()).is_some();
                    if stored && !has_ext && parent_ext {
                        // InitLoadUnverified scans upwards from the tip and stops at the first height that has no
                        // stored-but-unverified block: is this block behind such a height?
                        let tipn = snap.tip_number();
                        let unverified_at = |n: u64| blocks.iter().any(|x| x.number() == n && node.shared.store().get_block_header(&x.hash()).is_some() && node.shared.store().get_block_ext(&x.hash()).is_none());
                        let behind_gap = b.number() > tipn + 1 && (tipn + 1..b.number()).any(|n| !unverified_at(n));
                        let mut v = json!({"what": "a block that was stored but not verified before the crash (its parent is verified) was not picked up after the restart", "detail": {"case": ctx, "block": block_id[&b.hash()], "block_number": b.number(), "tip_number_at_restart": tipn}});
                        if behind_gap { v["signature"] = json!("C08-recovery-stops-at-first-empty-height-above-tip"); }
                        viol.push(v);
                    }
                }
                // ---- deliver everything again
                for b in &blocks { let _ = node.process(b); }
                let snap = node.shared.snapshot();
                if snap.tip_hash() != final_tip.hash() || u256_u128(snap.total_difficulty()) != final_td {
                    viol.push(json!({"what": "after the crash, restart and redelivery the node does not reach the tip of the run that never crashed", "detail": {"case": ctx, "tip": block_id.get(&snap.tip_hash()), "expected_tip": block_id.get(&final_tip.hash())}}));
                }
                if { let (want, got) = crate::c20::views_raw(&node, (cfg.window.0, cfg.window.1)); want != got } {
                    viol.push(json!({"what": "after the crash, restart and redelivery the snapshot's proposal view is not the proposal window over the main chain", "detail": ctx}));
                }
                let got = dump_store(node.shared.store(), &block_id, &tx_id);
                let main: Vec<BlockView> = final_main.iter().map(|id| if *id == 0 { consensus.genesis_block().clone() } else { blocks[*id as usize - 1].clone() }).collect();
                let want = replay(&main, &block_id, &tx_id);
                if let Some(msg) = diff_dumps(&got, &want) {
                    viol.push(json!({"what": format!("after the crash, restart and redelivery: {msg}"), "detail": ctx}));
                }
                let td_final = u256_u128(snap.total_difficulty());
                node.stop();
                (viol, td_restart, td_final, rcase, n_unv)
            }));
            match r {
                Err(p) => {
                    let msg = p.downcast_ref::<String>().cloned().or_else(|| p.downcast_ref::<&str>().map(|s| s.to_string())).unwrap_or_default();
                    out.viol.push(json!({"what": format!("the node does not come up again after the crash: {msg}"), "detail": ctx}));
                }
                Ok((viol, td_restart, td_final, rcase, n_unv)) => {
                    out.viol.extend(viol);
                    if n_unv > 0 {
                        *out.stats.entry("restarts_with_stored_unverified_blocks".into()).or_default() += 1;
                        cf.push(1, rcase);
                        descs.entry("recover".into()).or_default().push(ctx.clone());
                    }
                    // model: deliveries completed before the crash, the one in flight, the crash, everything again
                    let mk = |b: &BlockView| { let id = block_id[&b.hash()]; format!("mkB {} {} {} true", coq_n(id as u128), coq_n(parent_of[&id] as u128), coq_n(u256_u128(&b.header().difficulty()))) };
                    if !async_mode && at != 0 {
                        let done: Vec<String> = blocks.iter().take(progress as usize).map(mk).collect();
                        let inflight: Vec<String> = blocks.iter().skip(progress as usize).take(1).map(mk).collect();
                        let all: Vec<String> = blocks.iter().map(mk).collect();
                        cf.push(0, format!("mkCCase {} {} {} {} {} {}", coq_n(gtd), coq_list(&done, |s| s.clone()), coq_list(&inflight, |s| s.clone()), coq_list(&all, |s| s.clone()), coq_n(td_restart), coq_n(td_final)));
                        let mut d = ctx.clone();
                        d["observed"] = json!({"td_after_restart": td_restart.to_string(), "td_final": td_final.to_string()});
                        descs.entry("crash".into()).or_default().push(d);
                    }
                }
            }
            out.distinct.insert(format!("{hi}/{at}"));
        }
        if out.samples.is_empty() { out.samples.push(json!({"history": jhist, "write_points": total, "async": async_mode})); }
        let _ = std::fs::remove_dir_all(&case_dir);
    }
    cf.write().unwrap();
    std::fs::write(out_dir.join("cases_00.json"), serde_json::to_string(&descs).unwrap()).unwrap();
    out
}

#[allow(dead_code)]
fn unused(_: PathBuf, _: Byte32) {}
