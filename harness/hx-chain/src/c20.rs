//! C20: the node's proposal view (Shared::snapshot().proposals()) on real
//! chains with extensions, reorganisations, truncations and restarts, and the
//! ProposalTable API driven directly.
use crate::node::*;
use ckb_chain_spec::consensus::ProposalWindow;
use ckb_proposal_table::{ProposalTable, ProposalView};
use ckb_store::ChainStore;
use ckb_types::core::{BlockView, UncleBlockView};
use ckb_types::packed::ProposalShortId;
use ckb_types::prelude::Entity as _;
use hx_common::*;
use serde_json::{json, Value};
use std::collections::{BTreeMap, BTreeSet, HashSet};

fn ids_of(view_set: &HashSet<ProposalShortId>) -> Vec<u64> {
    let mut v: Vec<u64> = view_set.iter().map(|i| short_id_num(i).unwrap_or(u64::MAX)).collect();
    v.sort();
    v.dedup();
    v
}

fn union_ids(b: &BlockView) -> Vec<u64> {
    let mut v: Vec<u64> = b.union_proposal_ids_iter().map(|i| short_id_num(&i).unwrap_or(u64::MAX)).collect();
    v.sort();
    v.dedup();
    v
}

/// the property, computed from the main chain as the store lists it
pub fn expected_view(node: &Node, w: (u64, u64)) -> (Vec<u64>, Vec<u64>) {
    let snap = node.shared.snapshot();
    let tip = snap.tip_number();
    let c = tip + 1;
    let mut set = BTreeSet::new();
    let mut gap = BTreeSet::new();
    for h in 1..=tip {
        let hash = snap.get_block_hash(h).expect("main chain hash");
        let b = snap.get_block(&hash).expect("main chain block");
        let d = c - h;
        for id in union_ids(&b) {
            if d >= w.0 && d <= w.1 {
                set.insert(id);
            } else if d < w.0 {
                gap.insert(id);
            }
        }
    }
    (set.into_iter().collect(), gap.into_iter().collect())
}

/// the same on the raw short ids (histories whose proposals are real transactions)
pub fn views_raw(node: &Node, w: (u64, u64)) -> ((BTreeSet<Vec<u8>>, BTreeSet<Vec<u8>>), (BTreeSet<Vec<u8>>, BTreeSet<Vec<u8>>)) {
    use ckb_types::prelude::Entity;
    let snap = node.shared.snapshot();
    let tip = snap.tip_number();
    let c = tip + 1;
    let (mut set, mut gap) = (BTreeSet::new(), BTreeSet::new());
    for h in 1..=tip {
        let hash = snap.get_block_hash(h).expect("main chain hash");
        let b = snap.get_block(&hash).expect("main chain block");
        let d = c - h;
        for id in b.union_proposal_ids() {
            if d >= w.0 && d <= w.1 { set.insert(id.as_slice().to_vec()); } else if d < w.0 { gap.insert(id.as_slice().to_vec()); }
        }
    }
    let p = snap.proposals();
    let got = (p.set().iter().map(|i| i.as_slice().to_vec()).collect(), p.gap().iter().map(|i| i.as_slice().to_vec()).collect());
    ((set, gap), got)
}

pub fn observed_view(node: &Node) -> (Vec<u64>, Vec<u64>) {
    let snap = node.shared.snapshot();
    let p = snap.proposals();
    (ids_of(p.set()), ids_of(p.gap()))
}

fn coq_ids(v: &[u64]) -> String {
    coq_list(v, |x| coq_n(*x as u128))
}

enum MOp {
    Reorg(u64, Vec<Vec<u64>>),
    Restart,
}

pub struct Out {
    pub viol: Vec<Value>,
    pub evaluations: u64,
    pub distinct: BTreeSet<String>,
    pub stats: BTreeMap<String, u64>,
    pub samples: Vec<Value>,
}

pub fn run(seed: u64, thorough: bool, out_dir: &std::path::Path, scratch: &std::path::Path) -> Out {
    let mut rng = Rng::new(seed ^ 0xC20);
    let mut out = Out { viol: vec![], evaluations: 0, distinct: BTreeSet::new(), stats: BTreeMap::new(), samples: vec![] };
    let shards = 8usize;
    let header = "From CKB Require Import Chain.Proposal.";
    let mut files: Vec<CaseFile> = (0..shards)
        .map(|i| {
            let mut cf = CaseFile::new(out_dir, &format!("cases_{:02}", i), header);
            cf.group("chain", "pcase", "check_pcase");
            cf.group("table", "tcase", "check_tcase");
            cf
        })
        .collect();
    let mut descs: Vec<BTreeMap<String, Vec<Value>>> = (0..shards).map(|_| BTreeMap::new()).collect();

    // ---------------- stream 1: real chain histories ------------------------
    let n_hist = hx_common::shard_share_usize(if thorough { 900 } else { 70 });
    for hi in 0..n_hist {
        let r = std::panic::catch_unwind(std::panic::AssertUnwindSafe(|| {
        let window = *rng.pick(&[(2u64, 10u64), (2, 10), (1, 3), (2, 4), (3, 3), (1, 1)]);
        let cfg = ChainCfg { window, ..Default::default() };
        let (consensus, _funds) = make_consensus(&cfg);
        let dir = scratch.join(format!("n{hi}"));
        let _ = std::fs::remove_dir_all(&dir);
        let mut node = Node::on_disk(&consensus, &dir, false);
        let mut next_id: u64 = 1;
        let mut recent_ids: Vec<u64> = vec![];
        let mut ops: Vec<MOp> = vec![];
        let mut obs: Vec<(Vec<u64>, Vec<u64>)> = vec![];
        let mut jops: Vec<Value> = vec![];
        // transactions whose REAL short ids are proposed now and then: the verifier probe commits them
        let dummies: Vec<(u64, ckb_types::core::TransactionView)> = (0..5u64).map(|k| {
            let n = REAL_ID_BASE + (hi as u64) * 8 + k;
            let tx = ckb_types::core::TransactionBuilder::default()
                .input(ckb_types::packed::CellInput::new(ckb_types::packed::OutPoint::new(ckb_types::packed::Byte32::from_slice(&[(k + 1) as u8; 32]).unwrap(), (seed % 1000) as u32 + hi as u32), 0))
                .build();
            register_real_short_id(n, tx.proposal_short_id());
            (n, tx)
        }).collect();
        let dummy_nums: Vec<u64> = dummies.iter().map(|d| d.0).collect();
        let mut stash: Vec<BlockView> = vec![]; // detached blocks: uncle candidates
        let mut used_uncles: HashSet<ckb_types::packed::Byte32> = HashSet::new();
        let nsteps = rng.range(4, if thorough { 14 } else { 9 });
        let gen_props = |rng: &mut Rng, next_id: &mut u64, recent: &mut Vec<u64>| -> Vec<ProposalShortId> {
            let k = match rng.below(4) { 0 => 0, 1 => 1, _ => rng.range(1, 3) };
            let mut v = vec![];
            for _ in 0..k {
                // sometimes re-propose a recent id (same id in several blocks of the window)
                let id = if !recent.is_empty() && rng.chance(1, 4) { *rng.pick(recent) } else if rng.chance(1, 4) { *rng.pick(&dummy_nums) } else { *next_id += 1; *next_id };
                if !v.contains(&id) { v.push(id); }
                recent.push(id);
                if recent.len() > 12 { recent.remove(0); }
            }
            v.into_iter().map(short_id).collect()
        };
        let mut fail = false;
        let check = |node: &Node, what: &str, out: &mut Out, jops: &Vec<Value>, window: (u64, u64)| -> (Vec<u64>, Vec<u64>) {
            let o = observed_view(node);
            let e = expected_view(node, window);
            if o != e {
                out.viol.push(json!({"what": format!("proposal view differs from the on-chain window after {what}"),
                    "detail": {"window": [window.0, window.1], "history": jops, "tip": node.tip().number(),
                               "observed": {"set": o.0, "gap": o.1}, "expected": {"set": e.0, "gap": e.1}}}));
            }
            // "... and it agrees with the rule the block verifier applies to commitments": a next block committing a
            // transaction passes TwoPhaseCommitVerifier exactly when the view calls its id committable
            {
                let tip = node.tip();
                let ctx = ckb_verification_contextual::VerifyContext::new(std::sync::Arc::new(node.shared.store().clone()), node.shared.cloned_consensus());
                // the contextual verifier with every rule but the two-phase commit switched off (and no resolved transaction handed to the
                // transaction verifiers): its verdict is TwoPhaseCommitVerifier's
                let snap = node.shared.snapshot();
                let mmr = snap.chain_root_mmr(tip.number());
                let switch = ckb_verification_traits::Switch::DISABLE_ALL - ckb_verification_traits::Switch::DISABLE_TWO_PHASE_COMMIT;
                let verifier = ckb_verification_contextual::ContextualBlockVerifier::new(ctx, node.shared.async_handle(), switch, node.shared.txs_verify_cache(), &mmr);
                for (n, tx) in dummies.iter() {
                    let blk = ckb_types::core::BlockBuilder::default()
                        .parent_hash(tip.hash()).number(tip.number() + 1)
                        .transaction(ckb_types::core::TransactionBuilder::default().build())
                        .transaction(tx.clone())
                        .build();
                    let accepted = verifier.verify(&[], &blk).is_ok();
                    let in_view = o.0.contains(n);
                    let on_chain = e.0.contains(n);
                    *out.stats.entry(if accepted { "verifier_probe_accepts".into() } else if e.1.contains(n) { "verifier_probe_rejects_in_gap".into() } else { "verifier_probe_rejects".into() }).or_default() += 1;
                    if accepted != in_view || accepted != on_chain {
                        out.viol.push(json!({"what": format!("TwoPhaseCommitVerifier and the proposal view disagree after {what}: a block at height {} committing a transaction proposed as id {n} is {} by the verifier, the view's committable set {} it, the on-chain window {} it",
                                tip.number() + 1, if accepted { "accepted" } else { "rejected" }, if in_view { "contains" } else { "does not contain" }, if on_chain { "contains" } else { "does not contain" }),
                            "detail": {"window": [window.0, window.1], "history": jops, "tip": tip.number(), "observed": {"set": o.0, "gap": o.1}}}));
                    }
                }
            }
            o
        };
        for _ in 0..nsteps {
            let tip = node.tip().number();
            match rng.below(13) {
                12 if tip >= 2 => {
                    // a reorganisation that is abandoned: a competing branch with other proposals catches up with
                    // the tip (stored as side blocks), its next block would take over but breaks a rule (DAO field);
                    // the view must still be the window over the unchanged main chain, now and after the next block
                    let back = rng.range(1, 6);
                    let h = rng.range(tip.saturating_sub(back), tip - 1);
                    let builder = Node::temp(&consensus);
                    let snap = node.shared.snapshot();
                    for n in 1..=h {
                        let b = snap.get_block(&snap.get_block_hash(n).unwrap()).unwrap();
                        builder.process(&b).expect("replay on builder");
                    }
                    let tip_before = node.tip().hash();
                    let mut ok = true;
                    for i in 0..(tip - h) {
                        let plan = BlockPlan { proposals: gen_props(&mut rng, &mut next_id, &mut recent_ids), ts_delta: rng.range(1, 2000), nonce: 5150 + i as u128, ..Default::default() };
                        let b = build_block(&builder, &plan);
                        builder.process(&b).expect("builder accepts own block");
                        if node.process(&b).is_err() || node.tip().hash() != tip_before { ok = false; break; }
                    }
                    if ok {
                        let plan = BlockPlan { proposals: gen_props(&mut rng, &mut next_id, &mut recent_ids), ts_delta: rng.range(1, 2000), nonce: 5199, ..Default::default() };
                        let good = build_block(&builder, &plan);
                        let mut dao = good.dao().raw_data().to_vec();
                        dao[24] ^= 1;
                        let hdr = good.header().as_advanced_builder().dao(ckb_types::packed::Byte32::from_slice(&dao).unwrap()).build();
                        let bad = good.as_advanced_builder().header(hdr).build_unchecked();
                        let r = node.process(&bad);
                        crate::node::note_history(&jops); jops.push(json!({"rejected_fork": {"from_height": h, "side_blocks": tip - h, "invalid_block_height": bad.number()}}));
                        *out.stats.entry("rejected_forks".into()).or_default() += 1;
                        if r.is_ok() || node.tip().hash() != tip_before {
                            out.viol.push(json!({"what": "a branch whose overtaking block breaks a consensus rule (DAO field) moved the tip", "detail": {"history": jops}}));
                            fail = true;
                        } else {
                            check(&node, "an abandoned reorganisation (the overtaking block was invalid)", &mut out, &jops, window);
                            // the next block of the main chain
                            let parent_no = node.tip().number();
                            let plan = BlockPlan { proposals: gen_props(&mut rng, &mut next_id, &mut recent_ids), ts_delta: rng.range(1, 2000), ..Default::default() };
                            let b = build_block(&node, &plan);
                            if let Err(e) = node.process(&b) {
                                out.viol.push(json!({"what": format!("a block built from the node's own snapshot was rejected: {e}"), "detail": {"history": jops}}));
                                fail = true;
                            } else {
                                crate::node::note_history(&jops); jops.push(json!({"extend": {"height": b.number(), "proposals": union_ids(&b)}}));
                                ops.push(MOp::Reorg(parent_no, vec![union_ids(&b)]));
                                obs.push(check(&node, "an extension that follows an abandoned reorganisation", &mut out, &jops, window));
                            }
                        }
                    }
                    builder.stop();
                }
                12 => {}
                10 | 11 if !stash.is_empty() => {
                    // switch back to a branch the node has left: its blocks were verified while they were on
                    // the main chain, so the attached part of this reorganisation starts with verified blocks
                    let snap = node.shared.snapshot();
                    let cands: Vec<BlockView> = stash.iter().filter(|b| snap.get_block_number(&b.hash()).is_none() && snap.get_block_header(&b.hash()).is_some()).cloned().collect();
                    if cands.is_empty() { continue; }
                    let old = rng.pick(&cands).clone();
                    // path genesis -> old, from the node's store
                    let mut path: Vec<BlockView> = vec![old.clone()];
                    while path.last().unwrap().number() > 1 {
                        match snap.get_block(&path.last().unwrap().parent_hash()) { Some(p) => path.push(p), None => break }
                    }
                    if path.last().unwrap().number() != 1 { continue; }
                    path.reverse();
                    let fork_h = path.iter().filter(|b| snap.get_block_number(&b.hash()).is_some()).map(|b| b.number()).max().unwrap_or(0);
                    let builder = Node::temp(&consensus);
                    let mut ok = true;
                    for b in &path { if builder.process(b).is_err() { ok = false; break; } }
                    if !ok { builder.stop(); continue; }
                    let old_main: Vec<BlockView> = ((fork_h + 1)..=tip).map(|n| snap.get_block(&snap.get_block_hash(n).unwrap()).unwrap()).collect();
                    let mut branch: Vec<Vec<u64>> = path.iter().filter(|b| b.number() > fork_h).map(union_ids).collect();
                    let mut switched = false;
                    for i in 0..(tip.saturating_sub(old.number()) + 4) {
                        let plan = BlockPlan { proposals: gen_props(&mut rng, &mut next_id, &mut recent_ids), ts_delta: rng.range(1, 2000), nonce: 991 + i as u128, ..Default::default() };
                        let b = build_block(&builder, &plan);
                        builder.process(&b).expect("builder accepts own block");
                        let before = node.tip().hash();
                        if let Err(e) = node.process(&b) {
                            out.viol.push(json!({"what": format!("a valid block on a branch that was the main chain before was rejected: {e}"), "detail": {"history": jops}}));
                            fail = true;
                            break;
                        }
                        branch.push(union_ids(&b));
                        crate::node::note_history(&jops); jops.push(json!({"switch_back_block": {"on_abandoned_height": old.number(), "fork_height": fork_h, "height": b.number(), "proposals": union_ids(&b)}}));
                        if node.tip().hash() != before {
                            if !switched {
                                switched = true;
                                ops.push(MOp::Reorg(fork_h, branch.clone()));
                                *out.stats.entry("reorgs_back_to_verified_branch".into()).or_default() += 1;
                            } else {
                                ops.push(MOp::Reorg(b.number() - 1, vec![union_ids(&b)]));
                            }
                            obs.push(check(&node, "a reorganisation back to a branch that was verified before", &mut out, &jops, window));
                            if rng.chance(1, 2) { break; }
                        }
                    }
                    builder.stop();
                    if switched { stash.extend(old_main); }
                }
                10 | 11 => {}
                0..=4 => {
                    // extend by 1..5 blocks
                    let k = rng.range(1, 5);
                    for _ in 0..k {
                        let parent_no = node.tip().number();
                        let mut uncles: Vec<UncleBlockView> = vec![];
                        if rng.chance(1, 3) {
                            let snap = node.shared.snapshot();
                            for u in stash.iter() {
                                if uncles.len() < 2
                                    && !used_uncles.contains(&u.hash())
                                    && !uncles.iter().any(|x| x.hash() == u.hash())
                                    && u.number() < parent_no + 1
                                    && snap.get_block_number(&u.hash()).is_none()
                                    && snap.get_block_number(&u.parent_hash()).is_some()
                                    && u.epoch().number() == node.tip().epoch().number()
                                {
                                    uncles.push(u.as_uncle());
                                }
                            }
                        }
                        let plan = BlockPlan { proposals: gen_props(&mut rng, &mut next_id, &mut recent_ids), ts_delta: rng.range(1, 2000), uncles: uncles.clone(), ..Default::default() };
                        let b = build_block(&node, &plan);
                        match node.process(&b) {
                            Ok(_) => {}
                            Err(e) => {
                                out.viol.push(json!({"what": format!("a block built from the node's own snapshot was rejected: {e}"), "detail": {"history": jops, "uncles": uncles.len()}}));
                                fail = true;
                                break;
                            }
                        }
                        for u in &uncles { used_uncles.insert(u.hash()); }
                        *out.stats.entry("blocks_extended".into()).or_default() += 1;
                        if !uncles.is_empty() { *out.stats.entry("blocks_with_uncles".into()).or_default() += 1; }
                        crate::node::note_history(&jops); jops.push(json!({"extend": {"height": b.number(), "proposals": union_ids(&b)}}));
                        ops.push(MOp::Reorg(parent_no, vec![union_ids(&b)]));
                        obs.push(check(&node, "an extension", &mut out, &jops, window));
                    }
                }
                5..=7 if tip >= 1 => {
                    // fork from height h, long enough to take over
                    let back = rng.range(1, 14);
                    let h = if rng.chance(1, 5) { 0 } else { rng.range(tip.saturating_sub(back), tip - 1) };
                    let len = tip - h + rng.range(1, 3);
                    let builder = Node::temp(&consensus);
                    let snap = node.shared.snapshot();
                    for n in 1..=h {
                        let b = snap.get_block(&snap.get_block_hash(n).unwrap()).unwrap();
                        builder.process(&b).expect("replay on builder");
                    }
                    let old_main: Vec<BlockView> = ((h + 1)..=tip).map(|n| snap.get_block(&snap.get_block_hash(n).unwrap()).unwrap()).collect();
                    let mut branch: Vec<Vec<u64>> = vec![];
                    let mut switched = false;
                    for i in 0..len {
                        let plan = BlockPlan { proposals: gen_props(&mut rng, &mut next_id, &mut recent_ids), ts_delta: rng.range(1, 2000), nonce: 77 + i as u128, ..Default::default() };
                        let b = build_block(&builder, &plan);
                        builder.process(&b).expect("builder accepts own block");
                        let before = node.tip().hash();
                        if let Err(e) = node.process(&b) {
                            out.viol.push(json!({"what": format!("a valid fork block was rejected: {e}"), "detail": {"history": jops}}));
                            fail = true;
                            break;
                        }
                        branch.push(union_ids(&b));
                        crate::node::note_history(&jops); jops.push(json!({"fork_block": {"from_height": h, "height": b.number(), "proposals": union_ids(&b)}}));
                        if node.tip().hash() != before {
                            if !switched {
                                switched = true;
                                ops.push(MOp::Reorg(h, branch.clone()));
                                *out.stats.entry("reorgs".into()).or_default() += 1;
                                *out.stats.entry(format!("reorg_depth_{}", std::cmp::min(tip - h, 12))).or_default() += 1;
                            } else {
                                ops.push(MOp::Reorg(b.number() - 1, vec![union_ids(&b)]));
                            }
                            obs.push(check(&node, "a reorganisation", &mut out, &jops, window));
                        }
                    }
                    builder.stop();
                    if switched { stash.extend(old_main); }
                }
                8 => {
                    // restart from the on-disk store
                    node.stop();
                    node = Node::on_disk(&consensus, &dir, false);
                    crate::node::note_history(&jops); jops.push(json!("restart"));
                    ops.push(MOp::Restart);
                    *out.stats.entry("restarts".into()).or_default() += 1;
                    obs.push(check(&node, "a restart", &mut out, &jops, window));
                }
                _ if tip >= 2 => {
                    // truncate to an earlier main-chain block
                    let back = rng.range(1, 12);
                    let h = rng.range(tip.saturating_sub(back), tip - 1);
                    let target = node.shared.snapshot().get_block_hash(h).unwrap();
                    if let Err(e) = node.chain().truncate(target) {
                        out.viol.push(json!({"what": format!("truncate failed: {e}"), "detail": {"history": jops}}));
                        fail = true;
                    }
                    crate::node::note_history(&jops); jops.push(json!({"truncate_to": h}));
                    ops.push(MOp::Reorg(h, vec![]));
                    *out.stats.entry("truncations".into()).or_default() += 1;
                    obs.push(check(&node, "a truncation", &mut out, &jops, window));
                }
                _ => {}
            }
            if fail { break; }
        }
        node.stop();
        let _ = std::fs::remove_dir_all(&dir);
        out.evaluations += 1;
        out.distinct.insert(format!("{:?}", jops));
        let sh = hi % shards;
        let ops_coq = coq_list(&ops, |o| match o {
            MOp::Reorg(c, bl) => format!("PReorg {} {}", coq_nat(*c), coq_list(bl, |b| coq_ids(b))),
            MOp::Restart => "PRestart".into(),
        });
        let obs_coq = coq_list(&obs, |(s, g)| format!("({}, {})", coq_ids(s), coq_ids(g)));
        files[sh].push(0, format!("mkPCase {} {} [] {} {}", coq_nat(window.0), coq_nat(window.1), ops_coq, obs_coq));
        let d = json!({"stream": "chain", "window": [window.0, window.1], "history": jops,
                       "observed": obs.iter().map(|(s, g)| json!({"set": s, "gap": g})).collect::<Vec<_>>()});
        if out.samples.len() < 2 { out.samples.push(d.clone()); }
        descs[sh].entry("chain".into()).or_default().push(d);
        }));
        if let Err(p) = r {
            let msg = p.downcast_ref::<String>().cloned().or_else(|| p.downcast_ref::<&str>().map(|s| s.to_string())).unwrap_or_default();
            out.viol.push(json!({"what": format!("the node panicked while processing a history: {msg}"),
                "detail": {"history_index": hi, "seed": seed, "history": crate::node::last_history()}}));
            out.evaluations += 1;
        }
    }

    // ---------------- stream 2: ProposalTable driven directly ----------------
    let n_tab = hx_common::shard_share_usize(if thorough { 20000 } else { 1600 });
    for ti in 0..n_tab {
        let window = *rng.pick(&[(2u64, 10u64), (1, 3), (2, 4), (3, 3), (1, 1), (4, 9)]);
        let mut table = ProposalTable::new(ProposalWindow(window.0, window.1));
        let mut view = ProposalView::default();
        let mut ops = vec![];
        let mut obs = vec![];
        let mut jops = vec![];
        let mut number = 0u64;
        let n = rng.range(3, 30);
        for _ in 0..n {
            match rng.below(10) {
                0..=5 => {
                    // the chain service's pattern: insert the next height, finalize
                    if rng.chance(1, 8) && number > 1 { number -= rng.range(1, std::cmp::min(number - 1, 6)); } else { number += 1; }
                    let ids: Vec<u64> = (0..rng.below(4)).map(|_| rng.range(1, 40)).collect();
                    let mut dd = ids.clone(); dd.sort(); dd.dedup();
                    table.insert(number, dd.iter().map(|i| short_id(*i)).collect());
                    ops.push(format!("TInsert {} {}", coq_nat(number), coq_ids(&dd)));
                    crate::node::note_history(&jops); jops.push(json!({"insert": [number, dd]}));
                    let before: BTreeSet<u64> = ids_of(view.set()).into_iter().collect();
                    let (removed, nv) = table.finalize(&view, number);
                    view = nv;
                    // the ids reported as dropped are exactly those that were committable and no longer are
                    let after: BTreeSet<u64> = ids_of(view.set()).into_iter().collect();
                    let want_removed: Vec<u64> = before.difference(&after).cloned().collect();
                    if ids_of(&removed) != want_removed {
                        out.viol.push(json!({"what": "finalize reports as dropped something else than the ids that left the committable set", "detail": {"stream": "table", "window": [window.0, window.1], "ops": jops, "finalize": number, "reported": ids_of(&removed), "left_the_set": want_removed}}));
                    }
                    ops.push(format!("TFinalize {}", coq_nat(number)));
                    crate::node::note_history(&jops); jops.push(json!({"finalize": number}));
                    obs.push((ids_of(&removed), ids_of(view.set()), ids_of(view.gap())));
                }
                6..=7 => {
                    let k = rng.range(0, number + 2);
                    table.remove(k);
                    ops.push(format!("TRemove {}", coq_nat(k)));
                    crate::node::note_history(&jops); jops.push(json!({"remove": k}));
                }
                _ => {
                    let k = rng.range(1, number + 3);
                    let ids: Vec<u64> = (0..rng.below(4)).map(|_| rng.range(1, 40)).collect();
                    let mut dd = ids.clone(); dd.sort(); dd.dedup();
                    table.insert(k, dd.iter().map(|i| short_id(*i)).collect());
                    ops.push(format!("TInsert {} {}", coq_nat(k), coq_ids(&dd)));
                    crate::node::note_history(&jops); jops.push(json!({"insert": [k, dd]}));
                }
            }
        }
        out.evaluations += 1;
        out.distinct.insert(format!("t{:?}", ops));
        *out.stats.entry("table_histories".into()).or_default() += 1;
        let sh = ti % shards;
        files[sh].push(1, format!("mkTCase {} {} {} {}", coq_nat(window.0), coq_nat(window.1), coq_list(&ops, |s| s.clone()),
            coq_list(&obs, |(r, s, g)| format!("({}, {}, {})", coq_ids(r), coq_ids(s), coq_ids(g)))));
        descs[sh].entry("table".into()).or_default().push(json!({"stream": "table", "window": [window.0, window.1], "ops": jops,
            "observed": obs.iter().map(|(r, s, g)| json!({"removed": r, "set": s, "gap": g})).collect::<Vec<_>>()}));
    }

    for (i, cf) in files.iter().enumerate() {
        cf.write().unwrap();
        std::fs::write(out_dir.join(format!("cases_{:02}.json", i)), serde_json::to_string(&descs[i]).unwrap()).unwrap();
    }
    out
}
