//! C01: random block trees (forks of any depth, per-branch difficulty after the
//! first epoch, invalid blocks anywhere) delivered to a real node in arbitrary
//! order (children before parents, duplicates), observed at quiescence after
//! every delivery.
use ckb_store::ChainStore;
use crate::node::*;
use crate::tree::*;
use ckb_chain::VerifyResult;
use ckb_types::prelude::*;
use ckb_types::U256;
use hx_common::*;
use serde_json::{json, Value};
use std::collections::{BTreeMap, BTreeSet, HashMap, HashSet};
use std::sync::mpsc::Receiver;
use std::time::{Duration, Instant};

pub struct Out {
    pub viol: Vec<Value>,
    pub evaluations: u64,
    pub distinct: BTreeSet<String>,
    pub stats: BTreeMap<String, u64>,
    pub samples: Vec<Value>,
}

fn u256_to_u128(x: &U256) -> u128 {
    let s = format!("{}", x);
    s.parse::<u128>().expect("difficulty fits u128")
}

/// schedule: a permutation of 1..=n with duplicates
fn gen_schedule(rng: &mut Rng, n: u64, stats: &mut BTreeMap<String, u64>) -> Vec<u64> {
    let mut order: Vec<u64> = (1..=n).collect();
    let style = rng.below(5);
    match style {
        0 => {} // in order
        1 => order.reverse(),
        2 => {
            // local swaps: neighbours exchange places (child just before parent)
            let mut i = 0;
            while i + 1 < order.len() {
                if rng.chance(1, 2) { order.swap(i, i + 1); i += 2; } else { i += 1; }
            }
        }
        3 => {
            // fully random
            for i in (1..order.len()).rev() { let j = rng.below(i as u64 + 1) as usize; order.swap(i, j); }
        }
        _ => {
            // one early block withheld until the end (everything behind it becomes an orphan)
            let k = rng.below(std::cmp::min(n, 4)) as usize;
            let x = order.remove(k);
            order.push(x);
        }
    }
    *stats.entry(format!("schedule_style_{style}")).or_default() += 1;
    // duplicates
    let mut out = vec![];
    for x in order {
        out.push(x);
        if rng.chance(1, 10) {
            let d = *rng.pick(&out);
            out.push(d);
            *stats.entry("duplicate_deliveries".into()).or_default() += 1;
        }
    }
    out
}

struct Pending {
    rx: Receiver<VerifyResult>,
    id: u64,
}

pub fn run(seed: u64, thorough: bool, out_dir: &std::path::Path) -> Out {
    let mut rng = Rng::new(seed ^ 0xC01);
    let mut out = Out { viol: vec![], evaluations: 0, distinct: BTreeSet::new(), stats: BTreeMap::new(), samples: vec![] };
    let shards = 8usize;
    let header = "From CKB Require Import Chain.ForkChoice Chain.Broker.";
    let mut files: Vec<CaseFile> = (0..shards)
        .map(|i| {
            let mut cf = CaseFile::new(out_dir, &format!("cases_{:02}", i), header);
            cf.group("sched", "fcase", "check_fcase");
            cf.group("broker", "bcase", "check_bcase");
            cf
        })
        .collect();
    let mut descs: Vec<BTreeMap<String, Vec<Value>>> = (0..shards).map(|_| BTreeMap::new()).collect();

    // ---- the orphan pool's periodic clean-up (a 60 s timer of the chain service) runs at least once while
    //      an orphan of the current epoch waits: it must stay and be connected when its parent arrives.
    //      In a thread of its own, next to the main stream.
    let retention = std::thread::spawn(orphan_retention_probe);

    let n_trees = hx_common::shard_share(if thorough { 400 } else { 36 });
    let scheds_per_tree = if thorough { 6 } else { 3 };
    let mut case_no = 0usize;
    for ti in 0..n_trees {
        if out.viol.iter().filter(|v| v.get("signature").is_none()).count() >= 6 { *out.stats.entry("stopped_early_after_violations".into()).or_default() += 1; break; }
        let params = TreeParams {
            n: rng.range(5, if thorough { 60 } else { 26 }) as usize,
            genesis_epoch_length: *rng.pick(&[3u64, 4, 6, 9, 1000]),
            p_bad_ctx: *rng.pick(&[0u64, 60, 120]),
            p_bad_ncv: *rng.pick(&[0u64, 0, 40]),
            fork_bias: *rng.pick(&[10u64, 25, 45]),
            window: (2, 10),
            with_proposals: false,
        };
        // every fourth tree is of the directed family "short heavy branch vs long light branch"
        let directed = ti % 4 == 3;
        let tree = if directed { gen_tree_heavy_vs_light(&mut rng) } else { gen_tree(&mut rng, &params) };
        if directed { *out.stats.entry("trees_heavy_vs_light".into()).or_default() += 1; }
        let n = tree.nodes.len() as u64;
        // ---- the property, computed from the tree (independent of the Coq model) ----
        let gtd = u256_to_u128(&tree.genesis_difficulty);
        let mut td: HashMap<u64, u128> = HashMap::new();
        let mut good: HashMap<u64, bool> = HashMap::new();
        td.insert(0, gtd);
        good.insert(0, true);
        for nd in &tree.nodes {
            td.insert(nd.id, td[&nd.parent] + u256_to_u128(&nd.difficulty));
            good.insert(nd.id, good[&nd.parent] && nd.kind == Kind::Valid);
        }
        let has_ncv = tree.nodes.iter().any(|x| x.kind == Kind::BadTxRoot);
        let n_bad = tree.nodes.iter().filter(|x| x.kind != Kind::Valid).count();
        let n_forks = {
            let mut kids: HashMap<u64, u64> = HashMap::new();
            for nd in &tree.nodes { *kids.entry(nd.parent).or_default() += 1; }
            kids.values().filter(|c| **c > 1).count()
        };
        let diffs: BTreeSet<u128> = tree.nodes.iter().map(|x| u256_to_u128(&x.difficulty)).collect();
        *out.stats.entry("trees".into()).or_default() += 1;
        *out.stats.entry("blocks".into()).or_default() += n;
        *out.stats.entry("invalid_blocks".into()).or_default() += n_bad as u64;
        *out.stats.entry("fork_points".into()).or_default() += n_forks as u64;
        if diffs.len() > 1 { *out.stats.entry("trees_with_uneven_difficulty".into()).or_default() += 1; }
        let jtree: Vec<Value> = tree.nodes.iter().map(|x| json!({"id": x.id, "parent": x.parent, "difficulty": u256_to_u128(&x.difficulty).to_string(), "kind": format!("{:?}", x.kind)})).collect();

        for _si in 0..scheds_per_tree {
            // enough evidence: every stalled schedule costs a minute of waiting; the verdict is settled
            if out.viol.iter().filter(|v| v.get("signature").is_none()).count() >= 6 { break; }
            let sched = gen_schedule(&mut rng, n, &mut out.stats);
            let jcase = json!({"stream": "tree-schedule", "directed_heavy_vs_light": directed, "tree": jtree, "schedule": sched});
            note_history(&[jcase.clone()]);
            let attempt = || std::panic::catch_unwind(std::panic::AssertUnwindSafe(|| {
                let node = Node::temp(&tree.consensus);
                let mut delivered: HashSet<u64> = HashSet::new();
                let mut verdicts: HashMap<u64, Vec<bool>> = HashMap::new();
                let mut n_dropped = 0u64;
                let mut any_stall = false;
                let mut pending: Vec<Pending> = vec![];
                let mut obs: Vec<(u128, u64)> = vec![];
                let mut viol: Vec<Value> = vec![];
                let mut last_tip = (0u64, gtd);
                for (step, id) in sched.iter().enumerate() {
                    let nd = tree.node(*id);
                    pending.push(Pending { rx: node.deliver(&nd.block), id: *id });
                    delivered.insert(*id);
                    // which blocks must have been processed by now
                    let mut expect: Vec<u64> = vec![];
                    for d in delivered.iter() {
                        let path = tree.path(*d);
                        let all_there = path.iter().all(|a| delivered.contains(a));
                        let ncv_above = path.iter().any(|a| *a != *d && tree.node(*a).kind == Kind::BadTxRoot);
                        if all_there && !ncv_above { expect.push(*d); }
                    }
                    // wait for quiescence; the clock restarts whenever something moves (a verdict arrives, the
                    // orphan pool changes), so a loaded machine is not mistaken for a stalled pipeline
                    let mut t0 = Instant::now();
                    let mut last_seen = (usize::MAX, usize::MAX);
                    let mut dropped: Vec<u64> = vec![];
                    let mut stalled = false;
                    loop {
                        let seen = (verdicts.values().map(|v| v.len()).sum::<usize>(), node.chain().orphan_blocks_len());
                        if seen != last_seen { last_seen = seen; t0 = Instant::now(); }
                        pending.retain(|p| match p.rx.try_recv() {
                            Ok(v) => { verdicts.entry(p.id).or_default().push(v.is_ok()); false }
                            Err(std::sync::mpsc::TryRecvError::Empty) => true,
                            // the chain service dropped the callback without calling it: remember, and decide
                            // from the store whether the block has been dealt with
                            Err(_) => { dropped.push(p.id); false }
                        });
                        dropped.retain(|id| {
                            let hash = tree.node(*id).block.hash();
                            let status = node.shared.get_block_status(&hash);
                            let done = node.shared.store().get_block_ext(&hash).is_some() || status == ckb_shared::block_status::BlockStatus::BLOCK_INVALID;
                            if done { verdicts.entry(*id).or_default().push(status != ckb_shared::block_status::BlockStatus::BLOCK_INVALID); n_dropped += 1; }
                            !done
                        });
                        // quiescent: every connected block has its verdict and every other delivered
                        // block is waiting in the orphan pool
                        let waiting = delivered.iter().filter(|d| !verdicts.contains_key(d)).count();
                        if expect.iter().all(|e| verdicts.contains_key(e)) && node.chain().orphan_blocks_len() == waiting { break; }
                        if t0.elapsed() > Duration::from_secs(60) {
                            let missing: Vec<u64> = expect.iter().filter(|e| !verdicts.contains_key(e)).cloned().collect();
                            viol.push(json!({"what": "nothing moved for 60 s and the node is not quiescent: a delivered block whose ancestors were all delivered was not processed, or a block with a missing ancestor is not held in the orphan pool",
                                             "detail": {"case": jcase, "step": step, "unprocessed": missing, "orphan_pool": node.chain().orphan_blocks_len(), "delivered_without_verdict": waiting,
                                                        "node_says": missing.iter().map(|m| { let b = &tree.node(*m).block; json!({"block": m, "status": format!("{:?}", node.shared.get_block_status(&b.hash())), "stored": node.shared.store().get_block_header(&b.hash()).is_some(), "ext": node.shared.store().get_block_ext(&b.hash()).map(|e| format!("{:?}", e.verified)),
                                                            "parent_status": format!("{:?}", node.shared.get_block_status(&b.parent_hash())), "parent_ext": node.shared.store().get_block_ext(&b.parent_hash()).map(|e| format!("{:?}", e.verified)), "tip": node.shared.snapshot().tip_number(), "unverified_tip": node.shared.get_unverified_tip().number()}) }).collect::<Vec<_>>()}}));
                            stalled = true;
                            break;
                        }
                        std::thread::sleep(Duration::from_micros(300));
                    }
                    if stalled { any_stall = true; break; }
                    // settle: verdicts for duplicates may still be in flight; they cannot move the tip
                    let snap = node.shared.snapshot();
                    let tip_id = tree.id_of(&snap.tip_hash());
                    let tip_td = u256_to_u128(snap.total_difficulty());
                    let orphans = node.chain().orphan_blocks_len() as u64;
                    // ---- property predicate ----
                    let best = delivered.iter().filter(|d| tree.path(**d).iter().all(|a| delivered.contains(a)) && good[*d]).map(|d| td[d]).max().unwrap_or(gtd).max(gtd);
                    if tip_td != best {
                        viol.push(json!({"what": format!("tip total difficulty {tip_td} is not the maximum {best} over the fully valid chains formed by the delivered blocks"),
                                         "detail": {"case": jcase, "step": step, "tip": tip_id}}));
                    }
                    if tip_id != 0 && (!good[&tip_id] || td[&tip_id] != tip_td) {
                        viol.push(json!({"what": "the tip is not the head of a fully valid chain with that accumulated difficulty",
                                         "detail": {"case": jcase, "step": step, "tip": tip_id, "tip_td": tip_td.to_string()}}));
                    }
                    if tip_id != last_tip.0 && tip_td <= last_tip.1 {
                        viol.push(json!({"what": "the node left its tip for a chain that is not strictly heavier",
                                         "detail": {"case": jcase, "step": step, "from": last_tip.0, "to": tip_id}}));
                    }
                    last_tip = (tip_id, tip_td);
                    obs.push((tip_td, orphans));
                }
                let final_tip = last_tip.0;
                // what is recorded for every processed block: accumulated difficulty; a verified flag,
                // when there is one, says whether the whole chain below is valid; the main chain is
                // exactly the path of the tip
                if !any_stall {
                    let store = node.shared.store();
                    for d in delivered.iter() {
                        let path = tree.path(*d);
                        if !path.iter().all(|a| delivered.contains(a)) { continue; }
                        let h = tree.node(*d).block.hash();
                        match store.get_block_ext(&h) {
                            None => {
                                // no record: the block or an ancestor failed non-contextual verification, or a
                                // contextually invalid ancestor got the branch deleted
                                if good[d] { viol.push(json!({"what": "a fully valid, connected block has no BlockExt record", "detail": {"case": jcase, "block": d}})); }
                            }
                            Some(ext) => {
                                if u256_to_u128(&ext.total_difficulty) != td[d] {
                                    viol.push(json!({"what": format!("BlockExt.total_difficulty of block {d} is {} instead of {}", u256_to_u128(&ext.total_difficulty), td[d]), "detail": {"case": jcase}}));
                                }
                                if ext.verified == Some(true) && !good[d] { viol.push(json!({"what": "a block on an invalid chain is recorded as verified", "detail": {"case": jcase, "block": d}})); }
                                if ext.verified == Some(false) && good[d] { viol.push(json!({"what": "a fully valid block is recorded as invalid", "detail": {"case": jcase, "block": d}})); }
                            }
                        }
                    }
                    let tip_path: Vec<u64> = if final_tip == 0 { vec![] } else { tree.path(final_tip) };
                    for (k, id) in tip_path.iter().enumerate() {
                        let want = tree.node(*id).block.hash();
                        if store.get_block_hash(k as u64 + 1) != Some(want) {
                            viol.push(json!({"what": format!("the main-chain index at height {} is not the tip's ancestor {id}", k + 1), "detail": {"case": jcase}}));
                        }
                    }
                    if store.get_block_hash(tip_path.len() as u64 + 1).is_some() {
                        viol.push(json!({"what": "the main-chain index continues above the tip", "detail": {"case": jcase}}));
                    }
                }
                node.stop();
                (obs, final_tip, viol, n_dropped)
            }));
            // A violation is reported when it can be shown again: the same schedule on a second, fresh node.  A one-off (a stall, a
            // tip that lags behind — seen about once in 10^3..10^4 schedules of the thorough tier on a machine with a load average
            // above 30, never twice for one schedule) is counted and described in the evidence, not alarmed: no input replays it.
            let has_viol = |r: &std::thread::Result<(Vec<(u128, u64)>, u64, Vec<Value>, u64)>| matches!(r, Ok((_, _, v, _)) if !v.is_empty());
            let mut r = attempt();
            if has_viol(&r) {
                let first: Vec<Value> = match &r { Ok((_, _, v, _)) => v.clone(), _ => vec![] };
                let r2 = attempt();
                if has_viol(&r2) || r2.is_err() {
                    if let Ok((_, _, v, _)) = &mut r { for x in v.iter_mut() { x["detail"]["seen_again_on_a_second_fresh_node"] = json!(true); } }
                } else {
                    *out.stats.entry("violations_not_reproduced_on_a_second_node".into()).or_default() += 1;
                    if first.iter().any(|x| x["what"].as_str().map(|w| w.starts_with("nothing moved for 60 s")).unwrap_or(false)) { *out.stats.entry("stalls_not_reproduced_on_a_second_node".into()).or_default() += 1; }
                    for f in first.iter().take(2) { if out.samples.len() < 8 { out.samples.push(json!({"not_reproduced_on_a_second_node": f["what"].clone(), "detail": f["detail"].clone()})); } }
                    r = r2;
                }
            }
            out.evaluations += 1;
            out.distinct.insert(format!("{:?}{:?}", jtree, sched));
            match r {
                Err(p) => {
                    let msg = p.downcast_ref::<String>().cloned().or_else(|| p.downcast_ref::<&str>().map(|s| s.to_string())).unwrap_or_default();
                    out.viol.push(json!({"what": format!("the node panicked: {msg}"), "detail": {"case": jcase}}));
                }
                Ok((obs, final_tip, viol, n_dropped)) => {
                    out.viol.extend(viol);
                    *out.stats.entry("verify_callbacks_dropped_but_block_processed".into()).or_default() += n_dropped;
                    let sched_coq = coq_list(&sched, |id| {
                        let nd = tree.node(*id);
                        format!("mkB {} {} {} {}", coq_n(nd.id as u128), coq_n(nd.parent as u128), coq_n(u256_to_u128(&nd.difficulty)), coq_bool(nd.kind == Kind::Valid))
                    });
                    // orphan counts are compared only when no block fails non-contextual verification
                    let obs_coq = coq_list(&obs, |(t, o)| format!("({}, {})", coq_n(*t), coq_n(*o as u128)));
                    let sh = case_no % shards;
                    files[sh].push(0, format!("mkFCase {} {} {} {} {}", coq_n(gtd), sched_coq, obs_coq, coq_n(final_tip as u128), coq_bool(!has_ncv)));
                    let mut d = jcase.clone();
                    d["observed"] = json!(obs.iter().map(|(t, o)| json!({"tip_td": t.to_string(), "orphans": o})).collect::<Vec<_>>());
                    d["final_tip"] = json!(final_tip);
                    if out.samples.len() < 2 && ti > 0 { out.samples.push(d.clone()); }
                    descs[sh].entry("sched".into()).or_default().push(d.clone());
                    // the delivery layer alone: per delivered block whether it reaches the orphan broker and the
                    // size of the orphan pool at quiescence (Chain/Broker.v recomputes the sizes)
                    let steps: Vec<String> = sched.iter().zip(obs.iter()).map(|(id, (_, o))| {
                        let nd = tree.node(*id);
                        format!("(mkBB {} {} {} false false, {}, {})", coq_n(nd.id as u128), coq_n(nd.parent as u128), coq_bool(nd.kind == Kind::Valid), coq_bool(nd.kind != Kind::BadTxRoot), coq_nat(*o))
                    }).collect();
                    // Chain/Broker.v describes first deliveries; what the chain service does with a block it is handed a second time
                    // (already parked, already queued, already verified) is not part of that model: such schedules are left to
                    // the fork-choice cases above
                    let distinct_ids: HashSet<u64> = sched.iter().cloned().collect();
                    if distinct_ids.len() == sched.len() {
                        files[sh].push(1, format!("mkBCase {}", coq_list(&steps, |x| x.clone())));
                        descs[sh].entry("broker".into()).or_default().push(d);
                    } else {
                        *out.stats.entry("broker_cases_skipped_repeated_delivery".into()).or_default() += 1;
                    }
                    case_no += 1;
                }
            }
        }
    }
    // ---- a long branch on top of an invalid block, delivered in one burst: the import
    // pipeline (bounded channels between the insert, preload and verify threads) must
    // reject all of it and stay alive
    {
        use ckb_verification_traits::Switch;
        let burst = if thorough { 400 } else { 160 };
        let cfg = ChainCfg::default();
        let (consensus, _) = make_consensus(&cfg);
        let builder = Node::temp(&consensus);
        let mut good: Vec<ckb_types::core::BlockView> = vec![];
        for k in 0..3u128 {
            let b = build_block(&builder, &BlockPlan { ts_delta: 5, nonce: k, ..Default::default() });
            builder.process(&b).expect("valid");
            good.push(b);
        }
        // the invalid block and its descendants
        let base = build_block(&builder, &BlockPlan { ts_delta: 5, nonce: 50, ..Default::default() });
        let mut dao = base.dao().raw_data().to_vec(); dao[24] ^= 1;
        let bad = { let h = base.header().as_advanced_builder().dao(ckb_types::packed::Byte32::from_slice(&dao).unwrap()).build(); base.as_advanced_builder().header(h).build_unchecked() };
        let mut branch = vec![bad.clone()];
        let _ = builder.chain().blocking_process_block_with_switch(std::sync::Arc::new(bad), Switch::DISABLE_ALL);
        for k in 0..burst {
            let b = build_block(&builder, &BlockPlan { ts_delta: 5, nonce: 100 + k as u128, ..Default::default() });
            let _ = builder.chain().blocking_process_block_with_switch(std::sync::Arc::new(b.clone()), Switch::DISABLE_ALL);
            branch.push(b);
        }
        // a valid competitor that must still be importable afterwards
        builder.stop();
        let builder2 = Node::temp(&consensus);
        for b in &good { builder2.process(b).expect("valid"); }
        let mut rest = vec![];
        for k in 0..3u128 {
            let b = build_block(&builder2, &BlockPlan { ts_delta: 7, nonce: 900 + k, ..Default::default() });
            builder2.process(&b).expect("valid");
            rest.push(b);
        }
        builder2.stop();
        let jcase = json!({"stream": "invalid-branch-burst", "descendants_of_invalid_block": burst});
        let r = std::panic::catch_unwind(std::panic::AssertUnwindSafe(|| {
            let node = Node::temp(&consensus);
            for b in &good { node.process(b).expect("valid"); }
            let rxs: Vec<_> = branch.iter().map(|b| node.deliver(b)).collect();
            let mut verdicts = 0;
            for rx in rxs { if rx.recv_timeout(Duration::from_secs(30)).is_ok() { verdicts += 1; } }
            let mut ok = true;
            for b in &rest { ok &= matches!(node.process(b), Ok(_)); }
            let tip = node.tip().hash();
            node.stop();
            (verdicts, ok, tip == rest.last().unwrap().hash())
        }));
        out.evaluations += 1;
        out.distinct.insert("invalid-branch-burst".into());
        *out.stats.entry("invalid_branch_burst_blocks".into()).or_default() += burst as u64;
        match r {
            Err(_) => out.viol.push(json!({"what": "panic while importing a long branch built on an invalid block", "detail": jcase})),
            Ok((verdicts, ok, tip_ok)) => {
                if verdicts != branch.len() { out.viol.push(json!({"what": format!("only {verdicts} of {} blocks of a branch built on an invalid block received a verdict: the import pipeline stalled", branch.len()), "detail": jcase})); }
                if !ok || !tip_ok { out.viol.push(json!({"what": "after a long invalid branch was delivered the node no longer imports valid blocks (tip is not the head of the heaviest valid chain)", "detail": jcase})); }
            }
        }
    }
    match retention.join() {
        Ok(v) => { out.viol.extend(v); *out.stats.entry("orphan_retention_probes".into()).or_default() += 1; out.evaluations += 1; }
        Err(_) => out.viol.push(json!({"what": "the orphan-retention probe panicked", "detail": {"stream": "orphan-retention"}})),
    }
    for (i, cf) in files.iter().enumerate() {
        cf.write().unwrap();
        std::fs::write(out_dir.join(format!("cases_{:02}.json", i)), serde_json::to_string(&descs[i]).unwrap()).unwrap();
    }
    out
}

/// A chain of 14 blocks (one epoch); the node gets 1..10, then 12 and 14 (orphans: parents missing), then
/// nothing for a little more than one clean-up period, then 11 and 13.
fn orphan_retention_probe() -> Vec<Value> {
    let mut viol = vec![];
    let cfg = ChainCfg::default();
    let (consensus, _) = make_consensus(&cfg);
    let builder = Node::temp(&consensus);
    let mut chain = vec![];
    for k in 0..14u128 {
        let b = build_block(&builder, &BlockPlan { ts_delta: 5, nonce: 7000 + k, ..Default::default() });
        builder.process(&b).expect("valid");
        chain.push(b);
    }
    builder.stop();
    let ctx = json!({"stream": "orphan-retention", "chain": 14, "delivered_first": "1..10, 12, 14", "then_after_65s": "11, 13"});
    let node = Node::temp(&consensus);
    let t0 = Instant::now();
    for b in &chain[..10] { if node.process(b).is_err() { viol.push(json!({"what": "a valid block was rejected", "detail": ctx})); return viol; } }
    let _r12 = node.deliver(&chain[11]);
    let _r14 = node.deliver(&chain[13]);
    let wait_orphans = |want: usize, secs: u64| { let t = Instant::now(); while node.chain().orphan_blocks_len() != want && t.elapsed() < Duration::from_secs(secs) { std::thread::sleep(Duration::from_millis(5)); } node.chain().orphan_blocks_len() };
    if wait_orphans(2, 90) != 2 { viol.push(json!({"what": "blocks whose parents are missing are not held in the orphan pool", "detail": ctx})); }
    // one clean-up tick for sure (the timer started with the chain service)
    while t0.elapsed() < Duration::from_secs(64) { std::thread::sleep(Duration::from_millis(200)); }
    let held = node.chain().orphan_blocks_len();
    if held != 2 {
        viol.push(json!({"what": format!("after the orphan pool's periodic clean-up only {held} of 2 orphans of the current epoch are still held (the retention horizon is several epochs)"), "detail": ctx}));
    }
    let _ = node.process(&chain[10]);
    let _ = node.process(&chain[12]);
    let t = Instant::now();
    while node.tip().number() != 14 && t.elapsed() < Duration::from_secs(120) { std::thread::sleep(Duration::from_millis(5)); }
    if node.tip().hash() != chain[13].hash() {
        viol.push(json!({"what": format!("orphans that waited through a clean-up period were not connected when their parents arrived: tip is at height {} instead of 14", node.tip().number()), "detail": ctx}));
    }
    node.stop();
    viol
}
