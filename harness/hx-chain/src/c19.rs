//! C19: chain-root MMR (store column, roots for every prefix, committed roots
//! in block extensions, membership proofs) and block filters / filter hash
//! chain, observed after every main-chain change of generated histories.
use crate::hist::*;
use crate::node::*;
use ckb_block_filter::filter::BlockFilter;
use ckb_hash::blake2b_256;
use ckb_store::ChainStore;
use ckb_types::core::{BlockView, HeaderView};
use ckb_types::packed::{self, Byte32};
use ckb_types::prelude::*;
use ckb_types::utilities::merkle_mountain_range::{ChainRootMMR, MergeHeaderDigest};
use ckb_types::U256;
use hx_common::*;
use serde_json::{json, Value};
use std::collections::{BTreeMap, BTreeSet};

pub struct Out {
    pub viol: Vec<Value>,
    pub evaluations: u64,
    pub distinct: BTreeSet<String>,
    pub stats: BTreeMap<String, u64>,
    pub samples: Vec<Value>,
}

/// RFC 0044, written out here (not the repository's MergeHeaderDigest): the parent digest hashes its
/// children's digests, adds their difficulties, and spans from the left child's start to the right
/// child's end in number, epoch, timestamp and compact target
fn merge(l: &packed::HeaderDigest, r: &packed::HeaderDigest) -> packed::HeaderDigest {
    let children_hash = {
        let mut data = Vec::with_capacity(64);
        data.extend_from_slice(&blake2b_256(l.as_slice()));
        data.extend_from_slice(&blake2b_256(r.as_slice()));
        blake2b_256(&data)
    };
    let td: U256 = { let a: U256 = l.total_difficulty().into(); let b: U256 = r.total_difficulty().into(); a + b };
    packed::HeaderDigest::new_builder()
        .children_hash(Byte32::from_slice(&children_hash).unwrap())
        .total_difficulty(td)
        .start_number(l.start_number()).end_number(r.end_number())
        .start_epoch(l.start_epoch()).end_epoch(r.end_epoch())
        .start_timestamp(l.start_timestamp()).end_timestamp(r.end_timestamp())
        .start_compact_target(l.start_compact_target()).end_compact_target(r.end_compact_target())
        .build()
}
/// the leaf of a header, written out here as well
fn leaf(h: &HeaderView) -> packed::HeaderDigest {
    let raw = h.data().raw();
    packed::HeaderDigest::new_builder()
        .children_hash(h.hash())
        .total_difficulty(h.difficulty())
        .start_number(raw.number()).end_number(raw.number())
        .start_epoch(raw.epoch()).end_epoch(raw.epoch())
        .start_timestamp(raw.timestamp()).end_timestamp(raw.timestamp())
        .start_compact_target(raw.compact_target()).end_compact_target(raw.compact_target())
        .build()
}

/// the specification, structurally: nodes in post order and the bagged root
/// for the first `k` leaves, for every k
pub(crate) fn expected(headers: &[HeaderView]) -> (Vec<packed::HeaderDigest>, Vec<packed::HeaderDigest>) {
    let mut nodes: Vec<packed::HeaderDigest> = vec![];
    let mut peaks: Vec<(u32, packed::HeaderDigest)> = vec![]; // left to right
    let mut roots = vec![];
    for h in headers {
        let d = leaf(h);
        nodes.push(d.clone());
        peaks.push((0, d));
        while peaks.len() >= 2 && peaks[peaks.len() - 1].0 == peaks[peaks.len() - 2].0 {
            let (hh, r) = peaks.pop().unwrap();
            let (_, l) = peaks.pop().unwrap();
            let m = merge(&l, &r);
            nodes.push(m.clone());
            peaks.push((hh + 1, m));
        }
        // bag right to left
        let mut it = peaks.iter().rev();
        let mut acc = it.next().unwrap().1.clone();
        for (_, l) in it {
            acc = merge(l, &acc);
        }
        roots.push(acc);
    }
    (nodes, roots)
}

/// the numeric part of a digest and its start / end (epoch, timestamp, compact target)
type NDig = ((u64, u64, u128), (u64, u64, u64), (u64, u64, u64));
fn ndig(d: &packed::HeaderDigest) -> NDig {
    let s: u64 = d.start_number().into();
    let e: u64 = d.end_number().into();
    let td: U256 = d.total_difficulty().into();
    let (se, ee): (u64, u64) = (d.start_epoch().into(), d.end_epoch().into());
    let (st, et): (u64, u64) = (d.start_timestamp().into(), d.end_timestamp().into());
    let (sc, ec): (u32, u32) = (d.start_compact_target().into(), d.end_compact_target().into());
    ((s, e, format!("{}", td).parse::<u128>().unwrap()), (se, st, sc as u64), (ee, et, ec as u64))
}
fn ndig_coq(d: &NDig) -> String {
    let t3 = |a: u128, b: u128, c: u128| format!("({}, {}, {})", coq_n(a), coq_n(b), coq_n(c));
    format!("({}, {}, {})", t3(d.0 .0 as u128, d.0 .1 as u128, d.0 .2), t3(d.1 .0 as u128, d.1 .1 as u128, d.1 .2 as u128), t3(d.2 .0 as u128, d.2 .1 as u128, d.2 .2 as u128))
}

pub fn run(seed: u64, thorough: bool, out_dir: &std::path::Path, scratch: &std::path::Path) -> Out {
    let mut rng = Rng::new(seed ^ 0xC19);
    let mut out = Out { viol: vec![], evaluations: 0, distinct: BTreeSet::new(), stats: BTreeMap::new(), samples: vec![] };
    let shards = 8usize;
    let header = "From CKB Require Import Chain.MMR Chain.Extension.";
    let mut files: Vec<CaseFile> = (0..shards)
        .map(|i| { let mut cf = CaseFile::new(out_dir, &format!("cases_{:02}", i), header); cf.group("mmr", "mcase", "check_mcase"); cf.group("ext", "ecase", "check_ecase"); cf })
        .collect();
    let mut descs: Vec<BTreeMap<String, Vec<Value>>> = (0..shards).map(|_| BTreeMap::new()).collect();
    let n_hist = hx_common::shard_share_usize(if thorough { 400 } else { 40 });
    for hi in 0..n_hist {
        let cfg = ChainCfg {
            window: *rng.pick(&[(1u64, 2u64), (2, 4), (2, 10)]),
            genesis_epoch_length: *rng.pick(&[4u64, 7, 1000]),
            ..Default::default()
        };
        let mut frng = rng.fork();
        let mut lrng = Rng(frng.0 ^ 0x11c);
        let r = std::panic::catch_unwind(std::panic::AssertUnwindSafe(|| {
            let mut h = Hist::new(cfg.clone(), scratch.join(format!("n{hi}")), false);
            h.vary_locks = true;
            let mut steps: Vec<(u64, Vec<NDig>, Vec<NDig>, Vec<NDig>)> = vec![];
            // BlockExtensionVerifier's verdicts (Chain/Extension.v recomputes them): (root, extra fields, extension, accepted)
            let mut ext_cases: Vec<(Vec<u8>, u64, Option<Vec<u8>>, bool)> = vec![];
            let mut viol: Vec<Value> = vec![];
            let mut stats: BTreeMap<String, u64> = BTreeMap::new();
            let nsteps = rng.range(5, if thorough { 16 } else { 10 });
            let genesis_d = ndig(&h.consensus.genesis_block().header().digest());
            {
                let mut obs = |h: &Hist, c: &Change| {
                    let node = h.node();
                    let snap = node.shared.snapshot();
                    let main: Vec<BlockView> = h.main_chain().iter().map(|id| h.block_by_id(*id)).collect();
                    let headers: Vec<HeaderView> = main.iter().map(|b| b.header()).collect();
                    let (nodes, roots) = expected(&headers);
                    // 1. the store column up to the tip
                    let mut got_nodes = vec![];
                    for (pos, want) in nodes.iter().enumerate() {
                        match snap.get_header_digest(pos as u64) {
                            Some(d) => {
                                if d.as_slice() != want.as_slice() {
                                    viol.push(json!({"what": format!("after a {}: chain-root MMR node at position {} differs from the MMR over the main chain's header digests", c.what, pos), "detail": {"history": h.jops, "position": pos}}));
                                }
                                got_nodes.push(ndig(&d));
                            }
                            None => viol.push(json!({"what": format!("after a {}: chain-root MMR node at position {} is missing", c.what, pos), "detail": {"history": h.jops}})),
                        }
                    }
                    // 2. the root for every prefix, and 3. the committed root of every block
                    let mut got_roots = vec![];
                    for (k, want) in roots.iter().enumerate() {
                        match snap.chain_root_mmr(k as u64).get_root() {
                            Ok(r) => {
                                if r.as_slice() != want.as_slice() {
                                    viol.push(json!({"what": format!("after a {}: chain_root_mmr({}).get_root() is not the MMR root over blocks 0..={}", c.what, k, k), "detail": {"history": h.jops}}));
                                }
                                got_roots.push(ndig(&r));
                            }
                            Err(e) => viol.push(json!({"what": format!("get_root failed: {e}"), "detail": {"history": h.jops, "n": k}})),
                        }
                        if k + 1 < main.len() {
                            let b = &main[k + 1];
                            let ext = b.extension().map(|e| e.raw_data().to_vec()).unwrap_or_default();
                            if ext.len() < 32 || ext[..32] != want.calc_mmr_hash().as_slice()[..] {
                                viol.push(json!({"what": format!("block {} on the main chain does not commit to the MMR root over all its ancestors", b.number()), "detail": {"history": h.jops}}));
                            }
                        }
                    }
                    // 4. membership proofs: verify against the right root, not against another prefix's root
                    let tip = main.len() as u64 - 1;
                    if tip >= 2 {
                        let mmr: ChainRootMMR<_> = snap.chain_root_mmr(tip);
                        let mut leaves: Vec<u64> = (0..3).map(|_| frng.range(0, tip)).collect();
                        leaves.sort(); leaves.dedup();
                        let pos: Vec<u64> = leaves.iter().map(|i| ckb_merkle_mountain_range::leaf_index_to_pos(*i)).collect();
                        match mmr.gen_proof(pos.clone()) {
                            Ok(proof) => {
                                let items: Vec<(u64, packed::HeaderDigest)> = leaves.iter().zip(pos.iter()).map(|(i, p)| (*p, headers[*i as usize].digest())).collect();
                                let ok = proof.verify(roots[tip as usize].clone(), items.clone()).unwrap_or(false);
                                if !ok {
                                    viol.push(json!({"what": "a membership proof generated for main-chain blocks does not verify against the committed root", "detail": {"history": h.jops, "leaves": leaves}}));
                                }
                                let other = proof.verify(roots[tip as usize - 1].clone(), items.clone()).unwrap_or(false);
                                if other {
                                    viol.push(json!({"what": "a membership proof verifies against the root of a different chain prefix", "detail": {"history": h.jops, "leaves": leaves}}));
                                }
                                // a digest of a block that is not on the main chain must not verify
                                if let Some(stale) = h.stash.iter().find(|b| !main.iter().any(|m| m.hash() == b.hash())) {
                                    let mut bad = items.clone();
                                    bad[0].1 = stale.header().digest();
                                    if proof.verify(roots[tip as usize].clone(), bad).unwrap_or(false) {
                                        viol.push(json!({"what": "a membership proof verifies for a block that is not on the chain", "detail": {"history": h.jops}}));
                                    }
                                }
                                *stats.entry("proofs_checked".into()).or_default() += 1;
                            }
                            Err(e) => viol.push(json!({"what": format!("gen_proof failed: {e}"), "detail": {"history": h.jops, "leaves": leaves}})),
                        }
                    }
                    // 4b. roots and membership proofs as SERVED to light clients (light-client protocol server):
                    // anchored at the tip, at older main-chain blocks, at blocks of abandoned branches, at unknown hashes
                    {
                        let on_main: std::collections::HashSet<Byte32> = main.iter().map(|b| b.hash()).collect();
                        let stale: Vec<BlockView> = h.blocks.iter().filter(|b| !on_main.contains(&b.hash())).cloned().collect();
                        for mut v in crate::lightclient::probe(node, &main, &stale, &mut lrng, &mut stats) {
                            v["what"] = json!(format!("after a {}: {}", c.what, v["what"].as_str().unwrap_or("")));
                            v["detail"]["history"] = json!(h.jops);
                            viol.push(v);
                        }
                    }
                    // 4c. the acceptance side of the commitment: a child of the tip that is valid in everything
                    // but its extension (wrong root, no root at all, fewer than 32 bytes) must be rejected
                    if frng.chance(1, 2) {
                        let plan = BlockPlan { proposals: vec![], txs: vec![], uncles: vec![], ts_delta: 1 + frng.below(5000), nonce: 0xbad0_0000 + frng.below(1 << 20) as u128 };
                        let good = build_block_builder(node, &plan).build();
                        let root: Vec<u8> = good.extension().map(|e| e.raw_data().to_vec()).unwrap_or_default();
                        let mut variants: Vec<(&'static str, Option<Vec<u8>>)> = vec![];
                        if root.len() >= 32 {
                            let mut flipped = root.clone();
                            let bit = frng.below(256) as usize;
                            flipped[bit / 8] ^= 1 << (bit % 8);
                            variants.push(("a root with one bit flipped", Some(flipped)));
                            if main.len() >= 2 {
                                // the root over the chain without its tip (what the parent committed to)
                                variants.push(("the root of a shorter prefix", Some(roots[main.len() - 2].calc_mmr_hash().as_slice().to_vec())));
                            }
                            for n in [1usize, 16, 31] { variants.push(("fewer than 32 bytes of the root", Some(root[..n].to_vec()))); }
                            variants.push(("no extension", None));
                        }
                        // the tip itself passed the verifier against the root over the chain below it
                        if main.len() >= 2 && root.len() >= 32 {
                            let tipb = &main[main.len() - 1];
                            ext_cases.push((roots[main.len() - 2].calc_mmr_hash().as_slice().to_vec(), tipb.data().count_extra_fields() as u64, tipb.extension().map(|e| e.raw_data().to_vec()), true));
                        }
                        let v = frng.pick(&variants).clone();
                        let bad = match &v.1 {
                            Some(bytes) => { let e: packed::Bytes = ckb_types::bytes::Bytes::from(bytes.clone()).pack(); good.as_advanced_builder().extension(Some(e)).build() }
                            None => good.as_advanced_builder().extension(None).build(),
                        };
                        if bad.hash() != good.hash() {
                            let tip_before = node.tip().hash();
                            let r = node.process(&bad);
                            *stats.entry("bad_extension_children_offered".into()).or_default() += 1;
                            ext_cases.push((root[..32].to_vec(), bad.data().count_extra_fields() as u64, bad.extension().map(|e| e.raw_data().to_vec()), r.is_ok()));
                            if r.is_ok() || node.tip().hash() != tip_before {
                                viol.push(json!({"what": format!("a child of the tip whose extension carries {} ({} bytes) instead of the MMR root over its ancestors was accepted", v.0, v.1.as_ref().map(|b| b.len()).unwrap_or(0)),
                                                 "detail": {"history": h.jops, "extension": v.1.as_ref().map(|b| hex(b)), "block": hex(bad.data().as_slice())}}));
                            }
                        }
                    }
                    // 5. block filters: built lazily, sometimes only every other change
                    if frng.chance(2, 3) {
                        // ONE filter service per node process, as in the real node: whatever it remembers between two
                        // runs (and across reorganisations) is part of what is checked
                        {
                            let mut slot = h.node_bound.borrow_mut();
                            if slot.is_none() { *slot = Some(Box::new(BlockFilter::new(node.shared.clone()))); *stats.entry("filter_services_started".into()).or_default() += 1; }
                            slot.as_ref().unwrap().downcast_ref::<BlockFilter>().expect("block filter service").verif_build_filter_data();
                        }
                        let store = node.shared.store();
                        let mut parent_fh = Byte32::zero();
                        for b in &main {
                            let fh = store.get_block_filter_hash(&b.hash());
                            let fd = store.get_block_filter(&b.hash());
                            match (fh, fd) {
                                (Some(fh), Some(fd)) => {
                                    let want = blake2b_256([parent_fh.as_slice(), fd.calc_raw_data_hash().as_slice()].concat());
                                    if fh.as_slice() != &want[..] {
                                        viol.push(json!({"what": format!("filter hash of main-chain block {} does not chain from its parent's", b.number()), "detail": {"history": h.jops}}));
                                    }
                                    // every lock/type script of outputs and spent inputs must match
                                    let mut hashes: Vec<Byte32> = vec![];
                                    for tx in b.transactions() {
                                        for o in tx.outputs() {
                                            hashes.push(o.calc_lock_hash());
                                            if let Some(t) = o.type_().to_opt() { hashes.push(t.calc_script_hash()); }
                                        }
                                        if !tx.is_cellbase() {
                                            for op in tx.input_pts_iter() {
                                                if let Some(txid) = h.tx_id.get(&op.tx_hash()) {
                                                    let ptx = &h.txs[*txid as usize - 1];
                                                    let idx: usize = op.index().into();
                                                    if let Some(o) = ptx.outputs().get(idx) {
                                                        hashes.push(o.calc_lock_hash());
                                                        if let Some(t) = o.type_().to_opt() { hashes.push(t.calc_script_hash()); }
                                                    }
                                                }
                                            }
                                        }
                                    }
                                    if !hashes.is_empty() {
                                        let reader = golomb_coded_set::GCSFilterReader::new(golomb_coded_set::SipHasher24Builder::new(0, 0), golomb_coded_set::M, golomb_coded_set::P);
                                        let raw = fd.raw_data().to_vec();
                                        for hsh in &hashes {
                                            let mut q = std::iter::once(hsh.as_slice());
                                            let m = reader.match_any(&mut &raw[..], &mut q).unwrap_or(false);
                                            if !m {
                                                viol.push(json!({"what": format!("the filter of main-chain block {} does not match a script of its outputs / spent inputs", b.number()), "detail": {"history": h.jops, "script_hash": hex(hsh.as_slice())}}));
                                                break;
                                            }
                                        }
                                        *stats.entry("filters_checked".into()).or_default() += 1;
                                    }
                                    parent_fh = fh;
                                }
                                _ => {
                                    viol.push(json!({"what": format!("main-chain block {} has no filter after the filter builder ran", b.number()), "detail": {"history": h.jops}}));
                                    break;
                                }
                            }
                        }
                    }
                    if c.what != "restart" {
                        let n_common = (main.len() - c.attached.len()) as u64;
                        let att: Vec<NDig> = c.attached.iter().map(|id| ndig(&h.block_by_id(*id).header().digest())).collect();
                        steps.push((n_common, att, got_nodes, got_roots));
                    }
                };
                for _ in 0..nsteps {
                    // directed: leave the last j blocks, rebuild the chain to the SAME height with other blocks, then go back to
                    // the branch left before, extended by one block — the first block to build then sits exactly one above the
                    // block built last, which lies on the other branch (a service that remembers "the block built last" by
                    // number must not chain from it)
                    let tipn = h.node().tip().number();
                    let r = if tipn >= 3 && rng.chance(1, 6) {
                        let j = rng.range(1, 2);
                        *h.stats.entry("same_height_switch_back_steps".into()).or_default() += 1;
                        (|| -> Result<(), String> {
                            h.truncate(tipn - j, &mut obs)?;
                            for _ in 0..j { h.extend(&mut rng, &mut obs)?; }
                            h.revive(&mut rng, &mut obs)
                        })()
                    } else {
                        h.random_step(&mut rng, &mut obs)
                    };
                    if let Err(e) = r {
                        viol.push(json!({"what": e, "detail": {"history": h.jops}}));
                        break;
                    }
                }
            }
            let case = format!("mkMCase {} {}", ndig_coq(&genesis_d),
                coq_list(&steps, |(nc, att, nodes, roots)| format!("({}, {}, {}, {})", coq_n(*nc as u128), coq_list(att, ndig_coq), coq_list(nodes, ndig_coq), coq_list(roots, ndig_coq))));
            let desc = json!({"stream": "history", "window": [h.cfg.window.0, h.cfg.window.1], "genesis_epoch_length": h.cfg.genesis_epoch_length, "history": h.jops,
                              "steps": steps.iter().map(|(nc, att, nodes, roots)| json!({"common_leaves": nc, "attached": att.len(), "nodes": nodes.len(), "roots": roots.len()})).collect::<Vec<_>>()});
            for (k, v) in h.stats.clone() { *stats.entry(k).or_default() += v; }
            let key = format!("{:?}", h.jops);
            h.finish();
            (case, desc, viol, stats, key, ext_cases)
        }));
        out.evaluations += 1;
        match r {
            Err(p) => {
                let msg = p.downcast_ref::<String>().cloned().or_else(|| p.downcast_ref::<&str>().map(|s| s.to_string())).unwrap_or_default();
                out.viol.push(json!({"what": format!("the node panicked while processing a history: {msg}"), "detail": {"history_index": hi, "seed": seed, "history": last_history()}}));
            }
            Ok((case, desc, viol, stats, key, ext_cases)) => {
                out.viol.extend(viol);
                out.distinct.insert(key);
                for (k, v) in stats { *out.stats.entry(k).or_default() += v; }
                let sh = hi % shards;
                files[sh].push(0, case);
                if out.samples.is_empty() { out.samples.push(json!({"history": desc["history"], "window": desc["window"]})); }
                descs[sh].entry("mmr".into()).or_default().push(desc);
                for (root, nf, ext, acc) in ext_cases {
                    let bytes = |b: &Vec<u8>| coq_list(b, |x| coq_n(*x as u128));
                    files[sh].push(1, format!("mkECase true {} (mkEB {} {} true) {}", bytes(&root), coq_nat(nf), coq_option(&ext, |e| bytes(e)), coq_bool(acc)));
                    descs[sh].entry("ext".into()).or_default().push(json!({"stream": "extension-verifier", "history_index": hi, "extension_bytes": ext.as_ref().map(|e| e.len()), "accepted": acc}));
                }
            }
        }
    }
    for (i, cf) in files.iter().enumerate() {
        cf.write().unwrap();
        std::fs::write(out_dir.join(format!("cases_{:02}.json", i)), serde_json::to_string(&descs[i]).unwrap()).unwrap();
    }
    out
}
