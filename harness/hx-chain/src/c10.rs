//! C10: freezing old blocks must change no answer of the chain store, and a
//! crash anywhere in the freeze / wipe-out sequence must lose no main-chain
//! block.
use crate::hist::*;
use crate::node::*;
use ckb_hash::blake2b_256;
use ckb_store::ChainStore;
use ckb_types::core::cell::{CellProvider, CellStatus};
use ckb_types::core::BlockView;
use ckb_types::packed::Byte32;
use ckb_types::prelude::*;
use hx_common::*;
use serde_json::{json, Value};
use std::collections::{BTreeMap, BTreeSet};
use std::path::Path;
use std::process::Command;

pub struct Out {
    pub viol: Vec<Value>,
    pub evaluations: u64,
    pub distinct: BTreeSet<String>,
    pub stats: BTreeMap<String, u64>,
    pub samples: Vec<Value>,
}

fn dg(b: &[u8]) -> String {
    hex(&blake2b_256(b)[..8])
}

/// every answer the property lists, for every main-chain block, keyed by a readable name
pub fn observe(node: &Node, fresh_caches: bool) -> BTreeMap<String, String> {
    let _ = fresh_caches;
    let store = node.shared.store();
    let snap = node.shared.snapshot();
    let tip = snap.tip_number();
    let tip_hash = snap.tip_hash();
    let mut o = BTreeMap::new();
    for n in 0..=tip {
        let hash = match store.get_block_hash(n) { Some(h) => h, None => { o.insert(format!("{n}/hash"), "NONE".into()); continue; } };
        let k = |s: &str| format!("{n}/{s}");
        o.insert(k("block"), store.get_block(&hash).map(|b| dg(b.data().as_slice())).unwrap_or("NONE".into()));
        o.insert(k("packed_block"), store.get_packed_block(&hash).map(|b| dg(b.as_slice())).unwrap_or("NONE".into()));
        o.insert(k("header"), store.get_block_header(&hash).map(|h| dg(h.data().as_slice())).unwrap_or("NONE".into()));
        o.insert(k("body"), { let b = store.get_block_body(&hash); format!("{}:{}", b.len(), dg(&b.iter().flat_map(|t| t.hash().as_slice().to_vec()).collect::<Vec<u8>>())) });
        o.insert(k("txs_hashes"), { let b = store.get_block_txs_hashes(&hash); format!("{}:{}", b.len(), dg(&b.iter().flat_map(|t| t.as_slice().to_vec()).collect::<Vec<u8>>())) });
        o.insert(k("cellbase"), store.get_cellbase(&hash).map(|t| dg(t.data().as_slice())).unwrap_or("NONE".into()));
        o.insert(k("uncles"), store.get_block_uncles(&hash).map(|u| dg(u.data().as_slice())).unwrap_or("NONE".into()));
        o.insert(k("proposals"), store.get_block_proposal_txs_ids(&hash).map(|p| dg(p.as_slice())).unwrap_or("NONE".into()));
        o.insert(k("extension"), store.get_block_extension(&hash).map(|e| dg(e.as_slice())).unwrap_or("NONE".into()));
        o.insert(k("number"), store.get_block_number(&hash).map(|x| x.to_string()).unwrap_or("NONE".into()));
        // every cached getter once more, right away: an answer must not depend on having been asked before
        o.insert(k("header#2"), store.get_block_header(&hash).map(|h| dg(h.data().as_slice())).unwrap_or("NONE".into()));
        o.insert(k("txs_hashes#2"), { let b = store.get_block_txs_hashes(&hash); format!("{}:{}", b.len(), dg(&b.iter().flat_map(|t| t.as_slice().to_vec()).collect::<Vec<u8>>())) });
        o.insert(k("uncles#2"), store.get_block_uncles(&hash).map(|u| dg(u.data().as_slice())).unwrap_or("NONE".into()));
        o.insert(k("proposals#2"), store.get_block_proposal_txs_ids(&hash).map(|p| dg(p.as_slice())).unwrap_or("NONE".into()));
        o.insert(k("extension#2"), store.get_block_extension(&hash).map(|e| dg(e.as_slice())).unwrap_or("NONE".into()));
        o.insert(k("ancestor_from_tip"), store.get_ancestor(&tip_hash, n).map(|h| dg(h.hash().as_slice())).unwrap_or("NONE".into()));
        if let Some(b) = store.get_block(&hash) {
            for (i, tx) in b.transactions().iter().enumerate() {
                let kk = |s: &str| format!("{n}/tx{i}/{s}");
                o.insert(kk("tx"), store.get_transaction(&tx.hash()).map(|(t, bh)| format!("{}@{}", dg(t.data().as_slice()), dg(bh.as_slice()))).unwrap_or("NONE".into()));
                o.insert(kk("info"), store.get_transaction_info(&tx.hash()).map(|i| format!("{}#{}#{}", dg(i.block_hash.as_slice()), i.block_number, i.index)).unwrap_or("NONE".into()));
                for op in tx.output_pts_iter() {
                    let live = match snap.cell(&op, true) { CellStatus::Live(m) => format!("live:{}", dg(m.cell_output.as_slice())), CellStatus::Dead => "dead".into(), CellStatus::Unknown => "unknown".into() };
                    let idx: u32 = op.index().into();
                    o.insert(format!("{n}/tx{i}/cell{idx}"), live);
                }
            }
        }
    }
    o
}

fn diff(a: &BTreeMap<String, String>, b: &BTreeMap<String, String>) -> Vec<(String, String, String)> {
    let mut d = vec![];
    for (k, v) in a {
        match b.get(k) {
            Some(w) if w == v => {}
            Some(w) => d.push((k.clone(), v.clone(), w.clone())),
            None => d.push((k.clone(), v.clone(), "ABSENT".into())),
        }
    }
    d
}

fn copy_dir(from: &Path, to: &Path) {
    std::fs::create_dir_all(to).unwrap();
    for e in std::fs::read_dir(from).unwrap().flatten() {
        let p = e.path();
        let t = to.join(e.file_name());
        if p.is_dir() { copy_dir(&p, &t); } else { let _ = std::fs::copy(&p, &t); }
    }
}

fn cfg_json(cfg: &ChainCfg) -> Value { json!({"gel": cfg.genesis_epoch_length, "w0": cfg.window.0, "w1": cfg.window.1}) }
fn cfg_from(v: &Value) -> ChainCfg { ChainCfg { genesis_epoch_length: v["gel"].as_u64().unwrap(), window: (v["w0"].as_u64().unwrap(), v["w1"].as_u64().unwrap()), ..Default::default() } }

/// child: open the node (with freezer), run one freeze pass, exit
pub fn child(dir: &Path) -> ! {
    let spec: Value = serde_json::from_str(&std::fs::read_to_string(dir.join("spec.json")).unwrap()).unwrap();
    let (consensus, _) = make_consensus(&cfg_from(&spec["cfg"]));
    let node = Node::on_disk(&consensus, &dir.join("node"), true);
    let ft = ckb_systemtime::faketime();
    ft.set_faketime(node.tip().timestamp() + 1000);
    let _ = node.shared.verif_freeze_once();
    node.stop();
    std::process::exit(0)
}

fn run_child(dir: &Path, env: &[(&str, String)]) -> Option<i32> {
    let exe = crate::self_exe();
    let mut c = Command::new(exe);
    c.arg("C10-child").arg(dir);
    for k in ["VERIF_CRASH_AT", "VERIF_CRASH_LOG", "VERIF_FREEZER_CRASH_AT", "VERIF_FREEZER_CRASH_LOG"] { c.env_remove(k); }
    for (k, v) in env { c.env(k, v); }
    c.stdout(std::process::Stdio::null());
    match std::fs::File::create(dir.join("child.err")) { Ok(f) => { c.stderr(f); } Err(_) => { c.stderr(std::process::Stdio::null()); } }
    c.status().expect("spawn").code()
}

/// (is a freezer point, number within its kind, label) in the order the reference run reached them
fn parse_points(log: &Path) -> Vec<(bool, u64, String)> {
    std::fs::read_to_string(log).unwrap_or_default().lines().filter_map(|l| {
        let (n, label) = l.split_once(' ')?;
        let n: u64 = n.parse().ok()?;
        Some((label.starts_with("append:") || label.starts_with("sync:"), n, label.to_string()))
    }).collect()
}

/// items appended to the freezer and not yet covered by a completed sync_all when the given point is reached
fn unsynced_at(points: &[(bool, u64, String)], fz: bool, at: u64) -> u64 {
    let pos = match points.iter().position(|(k, n, _)| *k == fz && *n == at) { Some(p) => p, None => return 0 };
    let start = points[..pos].iter().rposition(|(_, _, l)| l == "sync:before").map(|i| i + 1).unwrap_or(0);
    points[start..pos].iter().filter(|(_, _, l)| l == "append:after-index").count() as u64
}

fn find_file(dir: &Path, name: &str) -> Option<std::path::PathBuf> {
    for e in std::fs::read_dir(dir).ok()?.flatten() {
        let p = e.path();
        if p.is_dir() { if let Some(f) = find_file(&p, name) { return Some(f); } }
        else if p.file_name().map(|n| n == name).unwrap_or(false) { return Some(p); }
    }
    None
}

/// Power loss instead of a process abort: of the `unsynced` newest freezer items any suffix may be gone
/// (index entries and data), possibly with a torn last entry.  Synced items are never touched.
fn power_loss(ancient: &Path, unsynced: u64, rng: &mut Rng) -> Option<Value> {
    let index = find_file(ancient, "INDEX")?;
    let raw = std::fs::read(&index).ok()?;
    let entries: Vec<(u32, u64)> = raw.chunks_exact(12).map(|c| (u32::from_le_bytes(c[0..4].try_into().unwrap()), u64::from_le_bytes(c[4..12].try_into().unwrap()))).collect();
    if entries.len() < 2 { return None; }
    let lose = rng.range(0, std::cmp::min(unsynced, entries.len() as u64 - 1));
    let keep = entries.len() as u64 - lose;              // entries kept, sentinel included
    let torn = *rng.pick(&[0u64, 0, 5, 11]);
    let ilen = std::cmp::min(raw.len() as u64, keep * 12 + if lose > 0 { torn } else { 0 });
    let head = entries[entries.len() - 1].0;
    let last_kept = entries[keep as usize - 1];
    let blk = index.parent()?.join(format!("blk{:06}", head));
    let cur = std::fs::metadata(&blk).map(|m| m.len()).unwrap_or(0);
    // data of the kept items stays; bytes after it may be partly there
    let floor = if last_kept.0 == head { last_kept.1 } else { 0 };
    let hlen = if lose == 0 && rng.chance(1, 2) { cur } else { std::cmp::min(cur, floor + rng.below(9)) };
    let cut = |p: &Path, len: u64| { if let Ok(f) = std::fs::OpenOptions::new().write(true).open(p) { let c = f.metadata().map(|m| m.len()).unwrap_or(0); if len < c { let _ = f.set_len(len); } } };
    cut(&index, ilen);
    cut(&blk, hlen);
    Some(json!({"unsynced_items": unsynced, "items_lost": lose, "index_bytes": ilen, "head_file_bytes": hlen}))
}

fn dn(b: &[u8]) -> u128 {
    u64::from_le_bytes(blake2b_256(b)[..8].try_into().unwrap()) as u128
}

/// One observation for the parts-level model (Freezer/FreezeParts.v): the main chain with its parts as the
/// blocks were built, Freezer::number(), which blocks still have their part rows in the key-value store
/// (read raw, not through the getters), and every part getter's answer.
fn pcase_coq(node: &Node, main: &[BlockView], side: &[BlockView]) -> String {
    use ckb_db_schema::COLUMN_BLOCK_UNCLE;
    let store = node.shared.store();
    let frozen = store.freezer().map(|f| f.number()).unwrap_or(1).saturating_sub(1);
    let blk = |hdr: u128, body: Vec<u128>, u: u128, p: u128, e: Option<u128>| {
        format!("({}, {}, {}, {}, {})", coq_n(hdr), coq_list(&body, |x| coq_n(*x)), coq_n(u), coq_n(p), coq_option(&e, |x| coq_n(*x)))
    };
    let mk = |b: &BlockView| {
        let body: Vec<u128> = b.transactions().iter().map(|t| dn(t.hash().as_slice())).collect();
        format!("mkBlk {} {} {} {} {} {}", coq_n(dn(b.hash().as_slice())), coq_n(dn(b.header().data().as_slice())), coq_list(&body, |x| coq_n(*x)),
            coq_n(dn(b.uncles().data().as_slice())), coq_n(dn(b.data().proposals().as_slice())), coq_option(&b.extension().map(|e| dn(e.as_slice())), |x| coq_n(*x)))
    };
    let observe_one = |hash: &Byte32| {
        let whole = |v: Option<BlockView>| v.map(|v| blk(dn(v.header().data().as_slice()), v.transactions().iter().map(|t| dn(t.hash().as_slice())).collect(),
            dn(v.uncles().data().as_slice()), dn(v.data().proposals().as_slice()), v.extension().map(|e| dn(e.as_slice()))));
        let packed_view = store.get_packed_block(hash).map(|p| p.into_view());
        format!("mkPObs {} {} {} {} {} {} {} {}",
            coq_option(&store.get_block_header(hash).map(|h| dn(h.data().as_slice())), |x| coq_n(*x)),
            coq_list(&store.get_block_body(hash).iter().map(|t| dn(t.hash().as_slice())).collect::<Vec<_>>(), |x| coq_n(*x)),
            coq_option(&store.get_cellbase(hash).map(|t| dn(t.hash().as_slice())), |x| coq_n(*x)),
            coq_option(&store.get_block_uncles(hash).map(|u| dn(u.data().as_slice())), |x| coq_n(*x)),
            coq_option(&store.get_block_proposal_txs_ids(hash).map(|p| dn(p.as_slice())), |x| coq_n(*x)),
            coq_option(&store.get_block_extension(hash).map(|e| dn(e.as_slice())), |x| coq_n(*x)),
            coq_option(&whole(store.get_block(hash)), |x| x.clone()),
            coq_option(&whole(packed_view), |x| x.clone()))
    };
    let mut mains = vec![];
    let mut rows = vec![];
    let mut obs = vec![];
    for b in main.iter().skip(1) {
        let hash = b.hash();
        mains.push(mk(b));
        rows.push(store.get(COLUMN_BLOCK_UNCLE, hash.as_slice()).is_some());
        obs.push(observe_one(&hash));
    }
    // side-chain blocks whose header row is still stored (siblings of main-chain blocks, also at frozen heights)
    let mut sides = vec![];
    let mut side_obs = vec![];
    for b in side.iter().filter(|b| store.get(ckb_db_schema::COLUMN_BLOCK_HEADER, b.hash().as_slice()).is_some() && store.get(COLUMN_BLOCK_UNCLE, b.hash().as_slice()).is_some()) {
        sides.push(format!("({}, {})", coq_nat(b.number()), mk(b)));
        side_obs.push(observe_one(&b.hash()));
    }
    format!("mkPCase {} {} {} {} {} {}", coq_list(&mains, |x| x.clone()), coq_nat(frozen), coq_list(&rows, |b| coq_bool(*b)), coq_list(&obs, |x| x.clone()),
        coq_list(&sides, |x| x.clone()), coq_list(&side_obs, |x| x.clone()))
}

pub fn run(seed: u64, thorough: bool, out_dir: &Path, scratch: &Path) -> Out {
    let mut rng = Rng::new(seed ^ 0xC10);
    let mut out = Out { viol: vec![], evaluations: 0, distinct: BTreeSet::new(), stats: BTreeMap::new(), samples: vec![] };
    let header = "From CKB Require Import Freezer.Freeze Freezer.FreezeParts.";
    let mut cf = CaseFile::new(out_dir, "cases_00", header);
    cf.group("freeze", "fzcase", "check_fzcase");
    cf.group("parts", "pcase", "check_pcase");
    let mut descs: BTreeMap<String, Vec<Value>> = BTreeMap::new();
    let ft = ckb_systemtime::faketime();
    let n_hist = hx_common::shard_share(if thorough { 8 } else { 2 });
    for hi in 0..n_hist {
        let cfg = ChainCfg { window: *rng.pick(&[(1u64, 2u64), (2, 4)]), genesis_epoch_length: *rng.pick(&[3u64, 4, 5]), ..Default::default() };
        let dir = scratch.join(format!("n{hi}"));
        let mut h = Hist::new(cfg.clone(), dir.clone(), true);
        h.ts_choices = vec![1, 2, 5, 9];
        let mut noop = |_: &Hist, _: &Change| {};
        // grow until several epochs have passed, with short side branches on the way
        let want_epoch = rng.range(4, 5);
        let mut guard = 0;
        let mut failed = false;
        while h.node().shared.snapshot().epoch_ext().number() < want_epoch && guard < 400 {
            guard += 1;
            ft.set_faketime(h.node().tip().timestamp() + 1000);
            let tip = h.node().tip().number();
            let r = if tip >= 3 && rng.chance(1, 6) {
                let from = rng.range(tip.saturating_sub(3), tip - 1);
                let extra = rng.range(0, 1);
                h.fork(&mut rng, from, tip - from + extra, &mut noop)
            } else { h.extend(&mut rng, &mut noop) };
            if let Err(e) = r { out.viol.push(json!({"what": e, "detail": {"history": h.jops}})); failed = true; break; }
        }
        if failed { h.finish(); continue; }
        *out.stats.entry("chain_blocks".into()).or_default() += h.node().tip().number();
        let jhist = json!({"window": [cfg.window.0, cfg.window.1], "genesis_epoch_length": cfg.genesis_epoch_length, "tip": h.node().tip().number(), "epoch": h.node().shared.snapshot().epoch_ext().number(), "blocks_built": h.blocks.len()});
        // side-chain blocks currently stored
        let main_ids: BTreeSet<u64> = h.main_chain().into_iter().collect();
        let side: Vec<BlockView> = h.blocks.iter().filter(|b| !main_ids.contains(&h.block_id[&b.hash()]) && h.node().shared.store().get_block_header(&b.hash()).is_some()).cloned().collect();
        let main_views: Vec<BlockView> = h.main_chain().iter().map(|id| h.block_by_id(*id)).collect();
        // ---- before
        let o0 = observe(h.node(), false);
        cf.push(1, pcase_coq(h.node(), &main_views, &side));
        descs.entry("parts".into()).or_default().push(json!({"case": jhist, "at": "before the pass"}));
        let frozen0 = h.node().shared.store().freezer().map(|f| f.number()).unwrap_or(0);
        // pristine copy for the crash stream
        let consensus = h.consensus.clone();
        let node = h.node.take().unwrap();
        node.stop();
        let pristine = scratch.join(format!("pristine{hi}"));
        let _ = std::fs::remove_dir_all(&pristine);
        copy_dir(&dir, &pristine.join("node"));
        std::fs::write(pristine.join("spec.json"), json!({"cfg": cfg_json(&cfg)}).to_string()).unwrap();
        h.node = Some(Node::on_disk(&consensus, &dir, true));
        // ---- one pass, in process
        ft.set_faketime(h.node().tip().timestamp() + 1000);
        let (cur_epoch, limit) = {
            let snap = h.node().shared.snapshot();
            let cur_epoch = snap.epoch_ext().number();
            // first block of epoch cur+1-2
            let limit = if cur_epoch >= 2 { snap.get_epoch_index(cur_epoch + 1 - 2).and_then(|i| snap.get_epoch_ext(&i)).map(|e| e.start_number()).unwrap_or(0) } else { 0 };
            (cur_epoch, limit)
        };
        let r = std::panic::catch_unwind(std::panic::AssertUnwindSafe(|| h.node().shared.verif_freeze_once()));
        out.evaluations += 1;
        let mut fz_obs: Vec<(u64, u64, u64)> = vec![];
        match r {
            Err(_) | Ok(Err(_)) => out.viol.push(json!({"what": "the freeze pass failed or panicked", "detail": jhist})),
            Ok(Ok(())) => {
                let frozen1 = h.node().shared.store().freezer().map(|f| f.number()).unwrap_or(0);
                fz_obs.push((frozen0, limit.saturating_sub(1), frozen1));
                if cur_epoch > 2 && (frozen1 > limit || frozen1 < frozen0 || (limit > 1 && frozen1 <= 1)) {
                    out.viol.push(json!({"what": format!("freezer number {frozen1} after the pass is outside [previous {frozen0}, first block of epoch current-1 = {limit})"), "detail": jhist}));
                }
                *out.stats.entry("blocks_frozen".into()).or_default() += frozen1.saturating_sub(frozen0);
                let o1 = observe(h.node(), false);
                cf.push(1, pcase_coq(h.node(), &main_views, &side));
                descs.entry("parts".into()).or_default().push(json!({"case": jhist, "at": "after one pass"}));
                let d = diff(&o0, &o1);
                if !d.is_empty() {
                    for (k, a, b) in d.iter().take(3) { let _ = (a, b); *out.stats.entry(format!("changed_{}", k.rsplit('/').next().unwrap_or(""))).or_default() += 1; }
                    out.viol.push(json!({"what": format!("{} answers about main-chain blocks changed when old blocks were frozen", d.len()),
                        "signature": classify(&d),
                        "detail": {"case": jhist, "frozen_below": frozen1, "first_differences": d.iter().take(6).map(|(k, a, b)| json!({"query": k, "before": a, "after": b})).collect::<Vec<_>>()}}));
                }
                // only side-chain blocks at frozen heights may disappear
                for s in &side {
                    let there = h.node().shared.store().get_block(&s.hash()).is_some();
                    if !there && s.number() >= frozen1 {
                        out.viol.push(json!({"what": "a side-chain block above the frozen height was removed", "detail": {"case": jhist, "height": s.number()}}));
                    }
                }
                for b in side_reads(h.node(), &side).into_iter().take(2) {
                    out.viol.push(json!({"what": format!("after a freeze pass: {b}"), "detail": {"case": jhist, "frozen_below": frozen1}}));
                }
                // restart
                let node = h.node.take().unwrap();
                node.stop();
                match std::panic::catch_unwind(std::panic::AssertUnwindSafe(|| Node::on_disk(&consensus, &dir, true))) {
                    Ok(n) => h.node = Some(n),
                    Err(p) => {
                        let msg = p.downcast_ref::<String>().cloned().or_else(|| p.downcast_ref::<&str>().map(|s| s.to_string())).unwrap_or_default();
                        out.viol.push(json!({"what": format!("the node does not come up again after a freeze pass and a clean stop: {msg}"), "detail": {"case": jhist, "frozen_below": frozen1}}));
                        h.finish();
                        let _ = std::fs::remove_dir_all(&pristine);
                        continue;
                    }
                }
                let o2 = observe(h.node(), true);
                for b in side_reads(h.node(), &side).into_iter().take(2) {
                    out.viol.push(json!({"what": format!("after a freeze pass and a restart: {b}"), "detail": {"case": jhist, "frozen_below": frozen1}}));
                }
                cf.push(1, pcase_coq(h.node(), &main_views, &side));
                descs.entry("parts".into()).or_default().push(json!({"case": jhist, "at": "after one pass and a restart"}));
                let d = diff(&o0, &o2);
                if !d.is_empty() {
                    out.viol.push(json!({"what": format!("{} answers about main-chain blocks differ after freezing and a restart", d.len()),
                        "signature": classify(&d),
                        "detail": {"case": jhist, "first_differences": d.iter().take(6).map(|(k, a, b)| json!({"query": k, "before": a, "after": b})).collect::<Vec<_>>()}}));
                }
                *out.stats.entry("answers_compared".into()).or_default() += o0.len() as u64 * 2;
            }
        }
        h.finish();
        // ---- crash stream: one freeze pass in a child, killed at every write point
        let case_dir = scratch.join(format!("crash{hi}"));
        let fresh = |case_dir: &Path| { let _ = std::fs::remove_dir_all(case_dir); copy_dir(&pristine, case_dir); };
        fresh(&case_dir);
        // both kinds of points go to one log: its order is the order in which they are reached
        let log_all = case_dir.join("points.log");
        let code = run_child(&case_dir, &[("VERIF_CRASH_LOG", log_all.display().to_string()), ("VERIF_FREEZER_CRASH_LOG", log_all.display().to_string())]);
        let ref_points = parse_points(&log_all);
        let n_db = ref_points.iter().filter(|(k, _, _)| !*k).count() as u64;
        let n_fz = ref_points.iter().filter(|(k, _, _)| *k).count() as u64;
        if code != Some(0) {
            out.viol.push(json!({"what": format!("the reference freeze pass in a child process failed: exit {:?}", code), "detail": {"case": jhist, "stderr": std::fs::read_to_string(case_dir.join("child.err")).unwrap_or_default()}}));
            continue;
        }
        *out.stats.entry("db_write_points".into()).or_default() += n_db;
        *out.stats.entry("freezer_write_points".into()).or_default() += n_fz;
        let mut points: Vec<(&str, u64)> = vec![];
        for p in 1..=n_db { points.push(("VERIF_CRASH_AT", p)); }
        let max_fz = if thorough { 60 } else { 15 };
        if n_fz <= max_fz { for p in 1..=n_fz { points.push(("VERIF_FREEZER_CRASH_AT", p)); } }
        else {
            let mut keep = BTreeSet::new();
            for p in 1..=max_fz / 3 { keep.insert(p); keep.insert(n_fz + 1 - p); }
            while (keep.len() as u64) < max_fz { keep.insert(rng.range(1, n_fz)); }
            for p in keep { points.push(("VERIF_FREEZER_CRASH_AT", p)); }
        }
        for (var, at) in points {
            fresh(&case_dir);
            let _ = run_child(&case_dir, &[(var, at.to_string())]);
            // two crashes in three are power losses: freezer items appended since the last completed sync_all may be gone
            let unsynced = unsynced_at(&ref_points, var == "VERIF_FREEZER_CRASH_AT", at);
            let loss = if unsynced > 0 && rng.chance(2, 3) { power_loss(&case_dir.join("node").join("ancient"), unsynced, &mut rng) } else { None };
            if loss.is_some() { *out.stats.entry("crash_with_power_loss".into()).or_default() += 1; }
            out.evaluations += 1;
            out.distinct.insert(format!("{hi}/{var}/{at}"));
            *out.stats.entry(format!("crash_{}", if var == "VERIF_CRASH_AT" { "db_write" } else { "freezer_write" })).or_default() += 1;
            let ctx = json!({"case": jhist, "crash": {"kind": var, "at": at, "power_loss": loss}});
            note_history(&[ctx.clone()]);
            let r = std::panic::catch_unwind(std::panic::AssertUnwindSafe(|| {
                let mut viol = vec![];
                let node = Node::on_disk(&consensus, &case_dir.join("node"), true);
                let fnum = node.shared.store().freezer().map(|f| f.number()).unwrap_or(0);
                let o = observe(&node, true);
                let pc1 = pcase_coq(&node, &main_views, &side);
                let d = diff(&o0, &o);
                if !d.is_empty() {
                    viol.push(json!({"what": format!("after a crash during the freeze pass {} main-chain blocks / transactions / cells read differently or are lost", d.len()),
                        "detail": {"case": ctx, "first_differences": d.iter().take(6).map(|(k, a, b)| json!({"query": k, "before": a, "after": b})).collect::<Vec<_>>()}}));
                }
                for b in side_reads(&node, &side).into_iter().take(2) {
                    viol.push(json!({"what": format!("after a crash during the freeze pass: {b}"), "signature": "C10-side-block-at-frozen-height-reads-as-main-block", "detail": {"case": ctx, "freezer_number": fnum}}));
                }
                // the next pass continues
                let ft = ckb_systemtime::faketime();
                ft.set_faketime(node.tip().timestamp() + 1000);
                if node.shared.verif_freeze_once().is_err() {
                    viol.push(json!({"what": "the freeze pass after a crash fails", "detail": ctx}));
                }
                let fnum2 = node.shared.store().freezer().map(|f| f.number()).unwrap_or(0);
                let o = observe(&node, false);
                let pc2 = pcase_coq(&node, &main_views, &side);
                let d = diff(&o0, &o);
                if !d.is_empty() {
                    viol.push(json!({"what": format!("after a crash during the freeze pass and a further pass {} main-chain blocks / transactions / cells read differently or are lost", d.len()),
                        "detail": {"case": ctx, "first_differences": d.iter().take(6).map(|(k, a, b)| json!({"query": k, "before": a, "after": b})).collect::<Vec<_>>()}}));
                }
                for b in side_reads(&node, &side).into_iter().take(2) {
                    viol.push(json!({"what": format!("after a crash during the freeze pass and a further pass: {b}"), "signature": "C10-side-block-at-frozen-height-reads-as-main-block", "detail": {"case": ctx, "freezer_number": fnum2}}));
                }
                node.stop();
                (viol, fnum, fnum2, pc1, pc2)
            }));
            match r {
                Err(p) => {
                    let msg = p.downcast_ref::<String>().cloned().or_else(|| p.downcast_ref::<&str>().map(|s| s.to_string())).unwrap_or_default();
                    out.viol.push(json!({"what": format!("the node does not come up again after a crash during the freeze pass: {msg}"), "detail": ctx}));
                }
                Ok((viol, fnum, fnum2, pc1, pc2)) => {
                    out.viol.extend(viol); fz_obs.push((fnum, 0, fnum2));
                    cf.push(1, pc1); descs.entry("parts".into()).or_default().push(json!({"case": ctx, "at": "re-opened after the crash"}));
                    cf.push(1, pc2); descs.entry("parts".into()).or_default().push(json!({"case": ctx, "at": "after the crash and a further pass"}));
                }
            }
        }
        let _ = std::fs::remove_dir_all(&case_dir);
        let _ = std::fs::remove_dir_all(&pristine);
        // model case: freezer numbers observed (before, limit-1, after) — the model checks the bounds
        cf.push(0, format!("mkFzCase {}", coq_list(&fz_obs, |(a, l, b)| format!("({}, {}, {})", coq_n(*a as u128), coq_n(*l as u128), coq_n(*b as u128)))));
        descs.entry("freeze".into()).or_default().push(json!({"case": jhist, "freezer_numbers": fz_obs}));
        if out.samples.is_empty() { out.samples.push(jhist); }
    }
    cf.write().unwrap();
    std::fs::write(out_dir.join("cases_00.json"), serde_json::to_string(&descs).unwrap()).unwrap();
    out
}

/// a side-chain block that is still stored must read as itself (never as the main-chain block frozen at
/// its height), through get_block, get_packed_block and the part getters
fn side_reads(node: &Node, side: &[BlockView]) -> Vec<String> {
    let store = node.shared.store();
    let mut bad = vec![];
    for s in side {
        let h = s.hash();
        // a block is removed as a whole: a header row without the part rows is a torn block
        {
            use ckb_db_schema::{COLUMN_BLOCK_PROPOSAL_IDS, COLUMN_BLOCK_UNCLE, COLUMN_BLOCK_HEADER};
            let (hd, un, pr) = (store.get(COLUMN_BLOCK_HEADER, h.as_slice()).is_some(), store.get(COLUMN_BLOCK_UNCLE, h.as_slice()).is_some(), store.get(COLUMN_BLOCK_PROPOSAL_IDS, h.as_slice()).is_some());
            if !hd {
                // removed (its header may still be served by the header cache of this process: C14's known
                // finding, not reported here): whole-block reads must answer None, not another block, not panic
                match std::panic::catch_unwind(std::panic::AssertUnwindSafe(|| (store.get_block(&h).map(|g| g.hash()), store.get_packed_block(&h).map(|g| g.calc_header_hash())))) {
                    Ok((None, None)) => {}
                    Ok((a, b)) => bad.push(format!("side-chain block {}-{:x} has been removed, but get_block / get_packed_block answer {:?} / {:?}", s.number(), h, a.map(|x| format!("{:x}", x)), b.map(|x| format!("{:x}", x)))),
                    Err(p) => { let msg = p.downcast_ref::<String>().cloned().or_else(|| p.downcast_ref::<&str>().map(|s| s.to_string())).unwrap_or_default(); bad.push(format!("reading the removed side-chain block {}-{:x} panics: {msg}", s.number(), h)); }
                }
                continue;
            }
            if !(un && pr) {
                bad.push(format!("side-chain block {}-{:x} is torn: header row {} uncles row {} proposals row {} body rows {} (freezer number {:?})",
                    s.number(), h, hd, un, pr, store.get_block_body(&h).len(), store.freezer().map(|f| f.number())));
                continue;
            }
        }
        match std::panic::catch_unwind(std::panic::AssertUnwindSafe(|| {
            let mut b = vec![];
            if let Some(g) = store.get_block(&h) { if g.hash() != h || g.data().as_slice() != s.data().as_slice() { b.push(format!("get_block of side-chain block {}-{:x} answers block {}-{:x}", s.number(), h, g.number(), g.hash())); } }
            if let Some(g) = store.get_packed_block(&h) { if g.as_slice() != s.data().as_slice() { b.push(format!("get_packed_block of side-chain block {}-{:x} answers another block ({:x})", s.number(), h, g.calc_header_hash())); } }
            let body = store.get_block_body(&h);
            if !body.is_empty() && body.iter().map(|t| t.hash()).collect::<Vec<_>>() != s.tx_hashes().to_vec() { b.push(format!("get_block_body of side-chain block {}-{:x} answers other transactions", s.number(), h)); }
            if let Some(u) = store.get_block_uncles(&h) { if u.data().as_slice() != s.uncles().data().as_slice() { b.push(format!("get_block_uncles of side-chain block {}-{:x} answers other uncles", s.number(), h)); } }
            if let Some(p) = store.get_block_proposal_txs_ids(&h) { if p.as_slice() != s.data().proposals().as_slice() { b.push(format!("get_block_proposal_txs_ids of side-chain block {}-{:x} answers other proposals", s.number(), h)); } }
            let e = store.get_block_extension(&h);
            if store.get_block_uncles(&h).is_some() && e.as_ref().map(|e| e.as_slice().to_vec()) != s.extension().map(|e| e.as_slice().to_vec()) { b.push(format!("get_block_extension of side-chain block {}-{:x} answers another extension", s.number(), h)); }
            b
        })) {
            Ok(b) => bad.extend(b),
            Err(p) => { let msg = p.downcast_ref::<String>().cloned().or_else(|| p.downcast_ref::<&str>().map(|s| s.to_string())).unwrap_or_default(); bad.push(format!("reading side-chain block {}-{:x} panics: {msg}", s.number(), h)); }
        }
    }
    bad
}

fn is_cell_key(k: &str) -> bool {
    let last = k.rsplit('/').next().unwrap_or("");
    last.starts_with("cell") && last[4..].chars().all(|c| c.is_ascii_digit()) && last.len() > 4
}

/// which getters changed: used as the signature of a finding
fn classify(d: &[(String, String, String)]) -> String {
    let mut kinds: BTreeSet<String> = BTreeSet::new();
    for (k, _, _) in d {
        let last = k.rsplit('/').next().unwrap_or("");
        let last = if is_cell_key(k) { "cell" } else { last };
        kinds.insert(last.to_string());
    }
    format!("freeze changes part getters: {}", kinds.into_iter().collect::<Vec<_>>().join(","))
}
