//! C03: on a real node, the next block of a prepared chain context is offered
//! in many variants — valid ones sitting exactly on a rule's boundary, and
//! mutants that break exactly one rule — through the pipeline a miner or peer
//! uses (HeaderVerifier, then the chain service).
use crate::node::*;
use ckb_chain_spec::consensus::Consensus;
use ckb_store::ChainStore;
use ckb_types::core::{BlockView, Capacity, HeaderView, TransactionView, UncleBlockView};
use ckb_types::packed::{self, Byte32, OutPoint, ProposalShortId};
use ckb_types::prelude::*;
use ckb_verification::HeaderVerifier;
use ckb_verification_traits::{Switch, Verifier};
use hx_common::*;
use serde_json::{json, Value};
use std::collections::{BTreeMap, BTreeSet, HashMap};
use std::sync::Arc;

pub struct Out {
    pub viol: Vec<Value>,
    pub evaluations: u64,
    pub distinct: BTreeSet<String>,
    pub stats: BTreeMap<String, u64>,
    pub samples: Vec<Value>,
}

/// which rule group a variant touches (the bits of the Coq model that are not measured)
#[derive(Clone, Copy, PartialEq, Eq, Debug)]
enum Group { None, Structure, Epoch, Reward, Dao, Extension, Txs }

struct Variant {
    name: &'static str,
    block: BlockView,
    expect_accept: bool,
    group: Group,
}

fn rebuild_with_txs(b: &BlockView, txs: Vec<TransactionView>) -> BlockView {
    b.as_advanced_builder().set_transactions(txs).build()
}

struct Ctx {
    consensus: Consensus,
    node: Node,
    funds: Vec<TransactionView>,
    window: (u64, u64),
    /// proposal short id -> small number
    pid: HashMap<ProposalShortId, u64>,
    bid: HashMap<Byte32, u64>,
}

impl Ctx {
    fn pid_of(&mut self, id: &ProposalShortId) -> u64 {
        let n = self.pid.len() as u64 + 1;
        *self.pid.entry(id.clone()).or_insert(n)
    }
    fn bid_of(&mut self, h: &Byte32) -> u64 {
        let n = self.bid.len() as u64 + 1;
        *self.bid.entry(h.clone()).or_insert(n)
    }
}

fn cap_of(tx: &TransactionView, i: usize) -> u64 {
    tx.outputs().get(i).unwrap().capacity().into()
}

/// build an uncle candidate: an alternative child of main[height-1]
fn sibling_at(ctx: &Ctx, height: u64, nonce: u128, proposals: Vec<ProposalShortId>) -> BlockView {
    let builder = Node::temp(&ctx.consensus);
    let snap = ctx.node.shared.snapshot();
    for n in 1..height {
        let b = snap.get_block(&snap.get_block_hash(n).unwrap()).unwrap();
        builder.process(&b).expect("replay");
    }
    let b = build_block(&builder, &BlockPlan { ts_delta: 3, nonce, proposals, ..Default::default() });
    builder.stop();
    b
}

pub fn run(seed: u64, thorough: bool, out_dir: &std::path::Path) -> Out {
    let mut rng = Rng::new(seed ^ 0xC03);
    let mut out = Out { viol: vec![], evaluations: 0, distinct: BTreeSet::new(), stats: BTreeMap::new(), samples: vec![] };
    let shards = 4usize;
    let header = "From CKB Require Import Chain.Rules.";
    let mut files: Vec<CaseFile> = (0..shards).map(|i| { let mut cf = CaseFile::new(out_dir, &format!("cases_{:02}", i), header); cf.group("rules", "rcase", "check_rcase"); cf }).collect();
    let mut descs: Vec<BTreeMap<String, Vec<Value>>> = (0..shards).map(|_| BTreeMap::new()).collect();
    let ft = ckb_systemtime::faketime();
    let n_ctx = hx_common::shard_share(if thorough { 120 } else { 16 });
    let mut case_no = 0usize;
    // cycles of one always-success spend, measured on the first accepted block of the run; every other
    // context then runs with max_block_cycles = exactly the cycles of its base candidate
    let mut tx_cycles: Option<u64> = None;
    for ci in 0..n_ctx {
        let window = *rng.pick(&[(2u64, 4u64), (2, 5), (1, 3), (2, 10)]);
        let n_commit: u64 = { let (wc, wf) = window; if (wc + wf) / 2 != wc && (wc + wf) / 2 != wf { 3 } else { 2 } };
        let cycle_limit: Option<u64> = match tx_cycles { Some(c) if ci % 2 == 1 => Some(c * n_commit), _ => None };
        let cfg = ChainCfg { window, genesis_epoch_length: 1000, fund_txs: 8, max_proposals: Some(6), max_block_cycles: cycle_limit, ..Default::default() };
        let (consensus, funds) = make_consensus(&cfg);
        let node = Node::temp(&consensus);
        let mut ctx = Ctx { consensus: consensus.clone(), node, funds: funds.clone(), window, pid: HashMap::new(), bid: HashMap::new() };
        let (wc, wf) = window;
        // ---- the context: a chain of wf + 3 + k blocks; transactions proposed at chosen distances from the NEXT block
        let extra = rng.range(0, 4);
        let len = wf + 3 + extra;          // tip height; the candidate block has height len + 1
        let cand = len + 1;
        let mk_tx = |fund: usize, tag: u64| spend(&[(OutPoint::new(funds[fund].hash(), 0), cap_of(&funds[fund], 0))], 2, 1000 + tag, 7000 + tag);
        let t_far = mk_tx(0, 1);       // proposed at distance w_far
        let t_close = mk_tx(1, 2);     // proposed at distance w_close
        let t_recent = mk_tx(2, 3);    // proposed at distance w_close - 1 (too recent; = parent when w_close = 1 is impossible, then distance 0 means never)
        let t_old = mk_tx(3, 4);       // proposed at distance w_far + 1 (too old)
        let t_never = mk_tx(4, 5);     // never proposed
        let t_mid = mk_tx(5, 6);       // proposed in the middle of the window
        let t_extra = mk_tx(6, 7);     // proposed at distance w_far: one transaction more than the base candidate commits
        let mut failed = false;
        ft.set_faketime(GENESIS_TS + 10_000_000);
        for hgt in 1..=len {
            let d = cand - hgt;
            let mut proposals = vec![];
            if d == wf { proposals.push(t_far.proposal_short_id()); proposals.push(t_extra.proposal_short_id()); }
            if d == wc { proposals.push(t_close.proposal_short_id()); }
            if wc >= 2 && d == wc - 1 { proposals.push(t_recent.proposal_short_id()); }
            if d == wf + 1 { proposals.push(t_old.proposal_short_id()); }
            if d == (wc + wf) / 2 && d != wc && d != wf { proposals.push(t_mid.proposal_short_id()); }
            if rng.chance(1, 3) { proposals.push(short_id(5000 + hgt)); }
            let b = build_block(&ctx.node, &BlockPlan { proposals, ts_delta: rng.range(1, 900), nonce: hgt as u128, ..Default::default() });
            if let Err(e) = ctx.node.process(&b) { out.viol.push(json!({"what": format!("context block rejected: {e}")})); failed = true; break; }
        }
        if failed { ctx.node.stop(); continue; }
        // two uncle candidates: siblings of the tip and of the tip's parent; one at the candidate's own height
        let u_tip = sibling_at(&ctx, len, 901, vec![short_id(8001)]);
        let u_prev = sibling_at(&ctx, len - 1, 902, vec![]);
        let u_third = sibling_at(&ctx, len, 903, vec![]);
        let u_dup_props = sibling_at(&ctx, len, 904, vec![short_id(8002), short_id(8002)]);
        // a block that includes u_prev so that it is "already included": extend the context by one block with that uncle
        let tip_hash = ctx.node.tip().hash();
        let tip_ts = ctx.node.tip().timestamp();
        // ---- the base candidate (valid): commits t_far, t_close (and t_mid when proposed), includes u_tip
        let mut commit = vec![t_far.clone(), t_close.clone()];
        if (wc + wf) / 2 != wc && (wc + wf) / 2 != wf { commit.push(t_mid.clone()); }
        let base_plan = BlockPlan { txs: commit.clone(), proposals: vec![short_id(9001), short_id(9002)], uncles: vec![u_tip.as_uncle()], ts_delta: 50, nonce: 1 };
        let base = build_block(&ctx.node, &base_plan);
        let median = { let snap = ctx.node.shared.snapshot(); use ckb_traits::HeaderFieldsProvider; snap.block_median_time(&tip_hash, consensus.median_time_block_count()) };
        let now = tip_ts + 3_600_000;
        ft.set_faketime(now);
        let mut vars: Vec<Variant> = vec![];
        let hb = |b: &BlockView, f: &dyn Fn(ckb_types::core::HeaderBuilder) -> ckb_types::core::HeaderBuilder| -> BlockView {
            let h = f(b.header().as_advanced_builder()).build();
            b.as_advanced_builder().header(h).build_unchecked()
        };
        // --- valid boundaries
        vars.push(Variant { name: "valid: commits at distance w_close and w_far, one uncle", block: base.clone(), expect_accept: true, group: Group::None });
        vars.push(Variant { name: "valid: timestamp = median + 1", block: hb(&base, &|h| h.timestamp(median + 1)), expect_accept: true, group: Group::None });
        vars.push(Variant { name: "valid: timestamp = now + 15 s", block: hb(&base, &|h| h.timestamp(now + 15_000)), expect_accept: true, group: Group::None });
        vars.push(Variant { name: "valid: two uncles (tip sibling, tip-parent sibling)", block: build_block(&ctx.node, &BlockPlan { uncles: vec![u_prev.as_uncle(), u_tip.as_uncle()], ..base_plan.clone() }), expect_accept: true, group: Group::None });
        vars.push(Variant { name: "valid: proposals exactly at the limit", block: build_block(&ctx.node, &BlockPlan { proposals: (0..6).map(|i| short_id(9100 + i)).collect(), ..base_plan.clone() }), expect_accept: true, group: Group::None });
        // --- header rules
        vars.push(Variant { name: "header: number + 1", block: hb(&base, &|h| h.number(cand + 1)), expect_accept: false, group: Group::None });
        vars.push(Variant { name: "header: timestamp = median (too old)", block: hb(&base, &|h| h.timestamp(median)), expect_accept: false, group: Group::None });
        vars.push(Variant { name: "header: timestamp = now + 15.001 s (too new)", block: hb(&base, &|h| h.timestamp(now + 15_001)), expect_accept: false, group: Group::None });
        {
            let e = base.header().epoch();
            let bad = ckb_types::core::EpochNumberWithFraction::new_unchecked(e.number(), e.index() + 1, e.length());
            vars.push(Variant { name: "header: epoch index skips one", block: hb(&base, &|h| h.epoch(bad)), expect_accept: false, group: Group::None });
            let bad2 = ckb_types::core::EpochNumberWithFraction::new_unchecked(e.number(), e.length(), e.length());
            vars.push(Variant { name: "header: epoch index = length (malformed)", block: hb(&base, &|h| h.epoch(bad2)), expect_accept: false, group: Group::None });
        }
        vars.push(Variant { name: "epoch: compact target differs from the epoch's", block: hb(&base, &|h| h.compact_target(base.header().compact_target() + 1)), expect_accept: false, group: Group::Epoch });
        // --- structure
        {
            let mut txs = base.transactions(); let cb = txs[0].clone(); txs.insert(1, cb);
            vars.push(Variant { name: "structure: two cellbases", block: rebuild_with_txs(&base, txs), expect_accept: false, group: Group::Structure });
            let mut txs = base.transactions(); txs.swap(0, 1);
            vars.push(Variant { name: "structure: cellbase not first", block: rebuild_with_txs(&base, txs), expect_accept: false, group: Group::Structure });
            let mut txs = base.transactions(); let d = txs[1].clone(); txs.push(d);
            vars.push(Variant { name: "structure: duplicate transaction", block: rebuild_with_txs(&base, txs), expect_accept: false, group: Group::Structure });
            vars.push(Variant { name: "structure: transactions root wrong", block: hb(&base, &|h| h.transactions_root(Byte32::from_slice(&[7u8; 32]).unwrap())), expect_accept: false, group: Group::Structure });
            vars.push(Variant { name: "structure: proposals hash wrong", block: hb(&base, &|h| h.proposals_hash(Byte32::from_slice(&[9u8; 32]).unwrap())), expect_accept: false, group: Group::Structure });
            vars.push(Variant { name: "structure: extra hash wrong", block: hb(&base, &|h| h.extra_hash(Byte32::from_slice(&[5u8; 32]).unwrap())), expect_accept: false, group: Group::Structure });
            vars.push(Variant { name: "structure: proposals over the limit", block: build_block(&ctx.node, &BlockPlan { proposals: (0..7).map(|i| short_id(9200 + i)).collect(), ..base_plan.clone() }), expect_accept: false, group: Group::Structure });
            vars.push(Variant { name: "structure: duplicate proposal", block: build_block(&ctx.node, &BlockPlan { proposals: vec![short_id(9300), short_id(9300)], ..base_plan.clone() }), expect_accept: false, group: Group::Structure });
            let cb = base.transactions()[0].clone();
            if let Some(o) = cb.outputs().get(0) {
                let cap: u64 = o.capacity().into();
                let half = o.clone().as_builder().capacity(Capacity::shannons(cap / 2)).build();
                let cb2 = cb.as_advanced_builder().set_outputs(vec![half.clone(), half]).set_outputs_data(vec![Default::default(), Default::default()]).build();
                let mut txs = base.transactions(); txs[0] = cb2;
                vars.push(Variant { name: "structure: cellbase with two outputs", block: rebuild_with_txs(&base, txs), expect_accept: false, group: Group::Structure });
                // reward
                let more = o.clone().as_builder().capacity(Capacity::shannons(cap + 1)).build();
                let cb3 = cb.as_advanced_builder().set_outputs(vec![more]).build();
                let mut txs = base.transactions(); txs[0] = cb3;
                vars.push(Variant { name: "reward: cellbase pays one shannon more", block: rebuild_with_txs(&base, txs), expect_accept: false, group: Group::Reward });
            }
        }
        // --- uncles
        vars.push(Variant { name: "uncles: three uncles", block: build_block(&ctx.node, &BlockPlan { uncles: vec![u_prev.as_uncle(), u_tip.as_uncle(), u_third.as_uncle()], ..base_plan.clone() }), expect_accept: false, group: Group::None });
        vars.push(Variant { name: "uncles: the same uncle twice", block: build_block(&ctx.node, &BlockPlan { uncles: vec![u_tip.as_uncle(), u_tip.as_uncle()], ..base_plan.clone() }), expect_accept: false, group: Group::None });
        {
            let snap = ctx.node.shared.snapshot();
            let main_prev = snap.get_block(&snap.get_block_hash(len - 1).unwrap()).unwrap();
            vars.push(Variant { name: "uncles: a main-chain block as uncle", block: build_block(&ctx.node, &BlockPlan { uncles: vec![main_prev.as_uncle()], ..base_plan.clone() }), expect_accept: false, group: Group::None });
        }
        vars.push(Variant { name: "uncles: uncle with duplicate proposals", block: build_block(&ctx.node, &BlockPlan { uncles: vec![u_dup_props.as_uncle()], ..base_plan.clone() }), expect_accept: false, group: Group::None });
        {
            // an uncle at the candidate's own height (number not lower), and one whose parent is unknown
            let same_h = hb(&u_tip, &|h| h.number(cand).parent_hash(tip_hash.clone()));
            vars.push(Variant { name: "uncles: uncle number = block number", block: build_block(&ctx.node, &BlockPlan { uncles: vec![same_h.as_uncle()], ..base_plan.clone() }), expect_accept: false, group: Group::None });
            let orphan_u = hb(&u_tip, &|h| h.parent_hash(Byte32::from_slice(&[3u8; 32]).unwrap()));
            vars.push(Variant { name: "uncles: uncle's parent is not on the chain", block: build_block(&ctx.node, &BlockPlan { uncles: vec![orphan_u.as_uncle()], ..base_plan.clone() }), expect_accept: false, group: Group::None });
            let e = u_tip.header().epoch();
            let other_epoch = hb(&u_tip, &|h| h.epoch(ckb_types::core::EpochNumberWithFraction::new_unchecked(e.number() + 1, 0, e.length())));
            vars.push(Variant { name: "uncles: uncle from another epoch", block: build_block(&ctx.node, &BlockPlan { uncles: vec![other_epoch.as_uncle()], ..base_plan.clone() }), expect_accept: false, group: Group::None });
            let other_target = hb(&u_tip, &|h| h.compact_target(u_tip.header().compact_target() + 1));
            vars.push(Variant { name: "uncles: uncle with another target", block: build_block(&ctx.node, &BlockPlan { uncles: vec![other_target.as_uncle()], ..base_plan.clone() }), expect_accept: false, group: Group::None });
        }
        // --- the propose / commit window (DAO of these blocks is computed for their own transactions)
        let try_commit = |txs: Vec<TransactionView>| -> Option<BlockView> {
            std::panic::catch_unwind(std::panic::AssertUnwindSafe(|| build_block(&ctx.node, &BlockPlan { txs, ..base_plan.clone() }))).ok()
        };
        if let Some(b) = try_commit(vec![t_never.clone()]) { vars.push(Variant { name: "window: commits a transaction that was never proposed", block: b, expect_accept: false, group: Group::None }); }
        if wc >= 2 { if let Some(b) = try_commit(vec![t_recent.clone()]) { vars.push(Variant { name: "window: commits at distance w_close - 1", block: b, expect_accept: false, group: Group::None }); } }
        if let Some(b) = try_commit(vec![t_old.clone()]) { vars.push(Variant { name: "window: commits at distance w_far + 1", block: b, expect_accept: false, group: Group::None }); }
        if let Some(b) = try_commit(vec![t_far.clone()]) { vars.push(Variant { name: "valid: commits only at distance w_far", block: b, expect_accept: true, group: Group::None }); }
        if let Some(b) = try_commit(vec![t_close.clone()]) { vars.push(Variant { name: "valid: commits only at distance w_close", block: b, expect_accept: true, group: Group::None }); }
        // --- the block cycle limit: the base candidate is exactly at it in every other context
        {
            let mut more = commit.clone(); more.push(t_extra.clone());
            if cycle_limit.is_some() {
                if let Some(b) = try_commit(more.clone()) { vars.push(Variant { name: "cycles: one committed transaction more than max_block_cycles allows", block: b, expect_accept: false, group: Group::Txs }); }
                // the same transactions again in a sibling: by now they are in the verification cache
                if let Some(b) = std::panic::catch_unwind(std::panic::AssertUnwindSafe(|| build_block(&ctx.node, &BlockPlan { txs: more.clone(), ts_delta: 51, nonce: 2, ..base_plan.clone() }))).ok() {
                    vars.push(Variant { name: "cycles: over max_block_cycles, transactions already in the verification cache", block: b, expect_accept: false, group: Group::Txs });
                }
            } else if let Some(b) = try_commit(more) {
                vars.push(Variant { name: "valid: commits one transaction more (no cycle limit in this context)", block: b, expect_accept: true, group: Group::None });
            }
        }
        // --- DAO, extension, transactions
        {
            let mut dao = base.dao().raw_data().to_vec(); dao[24] ^= 1;
            vars.push(Variant { name: "dao: occupied capacity off by one", block: hb(&base, &|h| h.dao(Byte32::from_slice(&dao).unwrap())), expect_accept: false, group: Group::Dao });
            if let Some(ext) = base.extension() {
                let mut e = ext.raw_data().to_vec(); e[0] ^= 1;
                let bytes: packed::Bytes = e.into();
                vars.push(Variant { name: "extension: chain root differs", block: base.as_advanced_builder().extension(Some(bytes)).build(), expect_accept: false, group: Group::Extension });
                let long: packed::Bytes = vec![1u8; 97].into();
                vars.push(Variant { name: "extension: longer than 96 bytes", block: base.as_advanced_builder().extension(Some(long)).build(), expect_accept: false, group: Group::Extension });
            }
            // double spend inside the block: t_far and a second tx spending the same cell (proposed? it is not, so make it the same id class: commit t_far twice is a duplicate; use conflicting tx proposed nowhere -> window; skip)
            let unknown = spend(&[(OutPoint::new(Byte32::from_slice(&[8u8; 32]).unwrap(), 0), 200_0000_0000)], 1, 0, 1);
            let _ = unknown;
        }
        // ---- offer every variant
        let snap0 = ctx.node.shared.snapshot();
        let _ = snap0;
        let ids_dump = |n: &Node| -> Vec<(Vec<u8>, Vec<u8>)> { raw_dump(n) };
        for v in vars {
            let before_tip = ctx.node.tip().hash();
            let before_dump = ids_dump(&ctx.node);
            let block = v.block.clone();
            // the model's view of this variant, measured against the context before it is offered
            let case_prefix = describe(&mut ctx, &block, v.group, median, now, cand, &consensus);
            let r = std::panic::catch_unwind(std::panic::AssertUnwindSafe(|| {
                let snap = ctx.node.shared.snapshot();
                let hv = HeaderVerifier::new(snap.as_ref(), &consensus).verify(&block.header());
                match hv {
                    Err(e) => (false, format!("header: {e}")),
                    Ok(()) => match ctx.node.process(&block) {
                        Ok(_) => (true, String::new()),
                        Err(e) => (false, format!("chain: {e}")),
                    },
                }
            }));
            out.evaluations += 1;
            out.distinct.insert(format!("{ci}/{}", v.name));
            *out.stats.entry(if v.expect_accept { "valid_variants".to_string() } else { "single_rule_mutants".to_string() }).or_default() += 1;
            let jcase = json!({"context": {"window": [wc, wf], "tip_height": len, "genesis_epoch_length": cfg.genesis_epoch_length, "max_block_cycles": cycle_limit}, "variant": v.name});
            let (accepted, why) = match r {
                Err(_) => { out.viol.push(json!({"what": "the node panicked on an offered block", "detail": jcase})); failed = true; break; }
                Ok(x) => x,
            };
            let on_main = ctx.node.shared.snapshot().get_block_number(&block.hash()).is_some() && ctx.node.tip().hash() == block.hash();
            if accepted != v.expect_accept || (accepted && !on_main) {
                out.viol.push(json!({"what": if v.expect_accept { format!("a block satisfying every rule (heaviest chain) was not attached: {why}") } else { "a block breaking a consensus rule was attached".to_string() }, "detail": jcase}));
            }
            if !accepted {
                // refused as a whole
                if ctx.node.tip().hash() != before_tip || ids_dump(&ctx.node) != before_dump {
                    out.viol.push(json!({"what": "a refused block changed the chain state", "detail": jcase}));
                }
                if ctx.node.shared.store().get_block_ext(&block.hash()).map(|e| e.verified == Some(true)).unwrap_or(false) {
                    out.viol.push(json!({"what": "a refused block is recorded as verified", "detail": jcase}));
                }
            }
            // ---- the model's view of this variant
            let case = format!("{} {}", case_prefix, coq_bool(accepted));
            let sh = case_no % shards;
            files[sh].push(0, case);
            descs[sh].entry("rules".into()).or_default().push(json!({"case": jcase, "accepted": accepted, "reason": why}));
            case_no += 1;
            if accepted {
                if tx_cycles.is_none() {
                    tx_cycles = ctx.node.shared.store().get_block_ext(&block.hash()).and_then(|e| e.cycles).and_then(|c| c.into_iter().max()).filter(|c| *c > 0);
                }
                // back to the context
                if let Err(e) = ctx.node.chain().truncate(before_tip.clone()) { out.viol.push(json!({"what": format!("truncate failed: {e}"), "detail": jcase})); }
            }
        }
        if failed { ctx.node.stop(); continue; }
        // ---- no extension of a refused branch becomes canonical
        {
            let builder = Node::temp(&consensus);
            let snap = ctx.node.shared.snapshot();
            for n in 1..=len { builder.process(&snap.get_block(&snap.get_block_hash(n).unwrap()).unwrap()).expect("replay"); }
            let mut dao = base.dao().raw_data().to_vec(); dao[24] ^= 1;
            let bad = { let h = base.header().as_advanced_builder().dao(Byte32::from_slice(&dao).unwrap()).build(); base.as_advanced_builder().header(h).build_unchecked() };
            let _ = builder.chain().blocking_process_block_with_switch(Arc::new(bad.clone()), Switch::DISABLE_ALL);
            let c1 = build_block(&builder, &BlockPlan { ts_delta: 5, nonce: 31, ..Default::default() });
            let _ = builder.chain().blocking_process_block_with_switch(Arc::new(c1.clone()), Switch::DISABLE_ALL);
            let c2 = build_block(&builder, &BlockPlan { ts_delta: 5, nonce: 32, ..Default::default() });
            builder.stop();
            let tip0 = ctx.node.tip().hash();
            for b in [&bad, &c1, &c2] { let _ = ctx.node.process(b); }
            out.evaluations += 1;
            if ctx.node.tip().hash() != tip0 {
                out.viol.push(json!({"what": "an extension of a branch that contains a rule-breaking block became canonical", "detail": {"window": [wc, wf], "tip_height": len}}));
            }
            *out.stats.entry("invalid_branch_extensions".into()).or_default() += 1;
        }
        if out.samples.is_empty() { out.samples.push(json!({"window": [wc, wf], "tip_height": len, "variants": case_no})); }
        ctx.node.stop();
        let _ = &ctx.funds;
    }
    for (i, cf) in files.iter().enumerate() {
        cf.write().unwrap();
        std::fs::write(out_dir.join(format!("cases_{:02}.json", i)), serde_json::to_string(&descs[i]).unwrap()).unwrap();
    }
    out
}

/// the canonical-chain columns, raw
fn raw_dump(n: &Node) -> Vec<(Vec<u8>, Vec<u8>)> {
    use ckb_db::IteratorMode;
    use ckb_db_schema::{COLUMN_CELL, COLUMN_INDEX, COLUMN_TRANSACTION_INFO, COLUMN_UNCLES};
    let mut v = vec![];
    for col in [COLUMN_CELL, COLUMN_INDEX, COLUMN_TRANSACTION_INFO, COLUMN_UNCLES] {
        for (k, val) in n.shared.store().get_iter(col, IteratorMode::Start) {
            let mut key = col.as_bytes().to_vec();
            key.extend_from_slice(&k);
            v.push((key, val.to_vec()));
        }
    }
    v
}

fn ef(e: ckb_types::core::EpochNumberWithFraction) -> String {
    format!("(mkEF {} {} {})", coq_n(e.number() as u128), coq_n(e.index() as u128), coq_n(e.length() as u128))
}

/// measures the block against the node's chain and renders the model's input
#[allow(clippy::too_many_arguments)]
fn describe(ctx: &mut Ctx, b: &BlockView, group: Group, _median: u64, now: u64, _cand: u64, consensus: &Consensus) -> String {
    let snap = ctx.node.shared.snapshot();
    let parent: Option<HeaderView> = snap.get_block_header(&b.parent_hash());
    let (pnum, pepoch) = parent.as_ref().map(|p| (p.number(), p.epoch())).unwrap_or((0, ckb_types::core::EpochNumberWithFraction::new_unchecked(0, 0, 0)));
    // ancestors' timestamps, parent first
    let mut ts = vec![];
    let mut cur = parent.clone();
    while let Some(h) = cur {
        ts.push(h.timestamp());
        if h.number() == 0 || ts.len() >= 64 { break; }
        cur = snap.get_block_header(&h.parent_hash());
    }
    let header = format!("(mkHI true {} {} {} {} {} {} {} {})", coq_n(b.number() as u128), coq_n(pnum as u128), ef(b.epoch()), ef(pepoch),
        coq_n(b.timestamp() as u128), coq_list(&ts, |t| coq_n(*t as u128)), coq_nat(consensus.median_time_block_count() as u64), coq_n(now as u128));
    // main chain and included uncles
    let tip = snap.tip_number();
    let mut main: Vec<(u64, u64)> = vec![];
    let mut incl: Vec<(u64, u64)> = vec![];
    let mut chain_props: Vec<Vec<u64>> = vec![];
    for n in 0..=tip {
        let h = snap.get_block_hash(n).unwrap();
        let blk = snap.get_block(&h).unwrap();
        main.push((ctx.bid_of(&h), n));
        for u in blk.uncles().into_iter() { incl.push((ctx.bid_of(&u.hash()), u.number())); }
        let props: Vec<u64> = blk.union_proposal_ids_iter().map(|p| ctx.pid_of(&p)).collect();
        chain_props.push(props);
    }
    let known: Vec<u64> = main.iter().map(|x| x.0).chain(incl.iter().map(|x| x.0)).collect();
    let limit = consensus.max_block_proposals_limit() as usize;
    let block_target = { // the epoch target the block must carry
        consensus.next_epoch_ext(&snap.tip_header().clone(), &snap.borrow_as_data_loader()).map(|e| e.epoch().compact_target()).unwrap_or(0)
    };
    let uncles: Vec<String> = b.uncles().into_iter().map(|u: UncleBlockView| {
        let props: Vec<ProposalShortId> = u.data().proposals().into_iter().collect();
        let mut seen = BTreeSet::new();
        let nodup = props.iter().all(|p| seen.insert(p.as_slice().to_vec()));
        let hash_ok = u.data().as_reader().calc_proposals_hash() == u.proposals_hash();
        format!("mkU {} {} {} {} {} {} true", coq_n(ctx.bid_of(&u.hash()) as u128), coq_n(ctx.bid_of(&u.data().header().raw().parent_hash()) as u128),
            coq_n(u.number() as u128), coq_n(u.epoch().number() as u128), coq_bool(u.compact_target() == block_target), coq_bool(nodup && hash_ok && props.len() <= limit))
    }).collect();
    let committed: Vec<u64> = b.transactions().iter().skip(1).map(|t| ctx.pid_of(&t.proposal_short_id())).collect();
    let bit = |g: Group| coq_bool(group != g);
    let block_epoch = consensus.next_epoch_ext(&snap.tip_header().clone(), &snap.borrow_as_data_loader()).map(|e| e.epoch().number()).unwrap_or(0);
    format!("mkRCase {} {} {} {} {} {} {} {} {} {} {} {} {} {} {} {} {} {}",
        header, bit(Group::Structure), bit(Group::Epoch),
        coq_n(b.number() as u128), coq_n(block_epoch as u128), coq_nat(consensus.max_uncles_num() as u64),
        coq_list(&main, |(i, n)| format!("({}, {})", coq_n(*i as u128), coq_n(*n as u128))),
        coq_list(&incl, |(i, n)| format!("({}, {})", coq_n(*i as u128), coq_n(*n as u128))),
        coq_list(&known, |i| coq_n(*i as u128)),
        coq_list(&uncles, |s| s.clone()),
        coq_nat(ctx.window.0), coq_nat(ctx.window.1),
        coq_list(&chain_props, |l| coq_list(l, |p| coq_n(*p as u128))),
        coq_list(&committed, |p| coq_n(*p as u128)),
        bit(Group::Reward), bit(Group::Dao), bit(Group::Extension), bit(Group::Txs))
}
