//! Random block trees over a genesis, built into real, fully valid blocks
//! (and deliberately invalid ones) for any delivery schedule.
use crate::node::*;
use ckb_chain_spec::consensus::Consensus;
use ckb_types::core::{BlockView, TransactionView};
use ckb_types::packed::Byte32;
use ckb_types::prelude::*;
use ckb_types::U256;
use ckb_verification_traits::Switch;
use hx_common::Rng;
use std::collections::HashMap;
use std::sync::Arc;

#[derive(Clone, Copy, PartialEq, Eq, Debug)]
pub enum Kind {
    Valid,
    /// fails contextual verification (DAO field / cellbase reward / epoch target)
    BadDao,
    BadReward,
    /// fails non-contextual verification (transactions root)
    BadTxRoot,
}

pub struct TNode {
    pub id: u64,      // 1.., genesis is 0
    pub parent: u64,
    pub kind: Kind,
    pub block: BlockView,
    pub difficulty: U256,
}

pub struct Tree {
    pub consensus: Consensus,
    pub funds: Vec<TransactionView>,
    pub genesis_difficulty: U256,
    pub nodes: Vec<TNode>, // index = id - 1
    pub by_hash: HashMap<Byte32, u64>,
}

pub struct TreeParams {
    pub n: usize,
    pub genesis_epoch_length: u64,
    pub p_bad_ctx: u64,  // per mille
    pub p_bad_ncv: u64,  // per mille
    pub fork_bias: u64,  // per cent probability that a new block forks off a non-tip block
    pub window: (u64, u64),
    pub with_proposals: bool,
}

impl Tree {
    pub fn id_of(&self, h: &Byte32) -> u64 {
        if let Some(i) = self.by_hash.get(h) { *i } else { 0 }
    }
    pub fn node(&self, id: u64) -> &TNode {
        &self.nodes[id as usize - 1]
    }
    /// ids from genesis (exclusive) down to `id` (inclusive)
    pub fn path(&self, id: u64) -> Vec<u64> {
        let mut p = vec![];
        let mut c = id;
        while c != 0 {
            p.push(c);
            c = self.node(c).parent;
        }
        p.reverse();
        p
    }
}

fn corrupt(b: &BlockView, kind: Kind) -> BlockView {
    match kind {
        Kind::Valid => b.clone(),
        Kind::BadDao => {
            let mut dao = b.dao().raw_data().to_vec();
            dao[24] ^= 0x01; // lowest bit of the occupied-capacity field U
            b.as_advanced_builder().dao(Byte32::from_slice(&dao).unwrap()).build()
        }
        Kind::BadReward => {
            // cellbase paying one shannon more (or a spurious output during the first blocks)
            let cb = b.transactions()[0].clone();
            let outs: Vec<_> = cb.outputs().into_iter().collect();
            let ncb = if outs.is_empty() {
                let (_, _, script) = ckb_test_chain_utils::always_success_cell();
                cb.as_advanced_builder()
                    .output(ckb_types::packed::CellOutput::new_builder().capacity(ckb_types::core::Capacity::shannons(7_000_000_000)).lock(script.clone()).build())
                    .output_data(ckb_types::bytes::Bytes::new())
                    .build()
            } else {
                let cap: u64 = outs[0].capacity().into();
                let o = outs[0].clone().as_builder().capacity(ckb_types::core::Capacity::shannons(cap + 1)).build();
                cb.as_advanced_builder().set_outputs(vec![o]).build()
            };
            let mut txs: Vec<TransactionView> = b.transactions();
            txs[0] = ncb;
            b.as_advanced_builder().set_transactions(txs).build()
        }
        Kind::BadTxRoot => {
            let h = b.header().as_advanced_builder().transactions_root(Byte32::from_slice(&[0x5a; 32]).unwrap()).build();
            b.as_advanced_builder().header(h).build_unchecked()
        }
    }
}

/// Generates the tree and builds every block.  A builder node is moved to the
/// parent of each new block (replaying the path with verification disabled).
pub fn gen_tree(rng: &mut Rng, p: &TreeParams) -> Tree {
    let cfg = ChainCfg { genesis_epoch_length: p.genesis_epoch_length, window: p.window, ..Default::default() };
    let (consensus, funds) = make_consensus(&cfg);
    let genesis_difficulty = consensus.genesis_block().header().difficulty();
    let mut tree = Tree { consensus: consensus.clone(), funds, genesis_difficulty, nodes: vec![], by_hash: HashMap::new() };
    let mut builder = Node::temp(&consensus);
    let mut builder_tip: u64 = 0;
    let mut next_prop: u64 = 1;
    for k in 1..=p.n as u64 {
        // choose the parent: mostly the newest block (long branches), sometimes any earlier block
        let parent = if k == 1 { 0 } else if rng.chance(p.fork_bias, 100) { rng.below(k) } else { k - 1 };
        if parent != builder_tip {
            builder.stop();
            builder = Node::temp(&consensus);
            for id in tree.path(parent) {
                builder
                    .chain()
                    .blocking_process_block_with_switch(Arc::new(tree.node(id).block.clone()), Switch::DISABLE_ALL)
                    .expect("replay on builder");
            }
        }
        let mut plan = BlockPlan { ts_delta: *rng.pick(&[1u64, 7, 500, 8_000, 900_000, 2_500_000]), nonce: k as u128, ..Default::default() };
        if p.with_proposals {
            for _ in 0..rng.below(3) {
                next_prop += 1;
                plan.proposals.push(short_id(next_prop));
            }
        }
        let good = build_block(&builder, &plan);
        let roll = rng.below(1000);
        let kind = if roll < p.p_bad_ncv { Kind::BadTxRoot }
                   else if roll < p.p_bad_ncv + p.p_bad_ctx { if rng.chance(1, 2) { Kind::BadDao } else { Kind::BadReward } }
                   else { Kind::Valid };
        let block = corrupt(&good, kind);
        builder
            .chain()
            .blocking_process_block_with_switch(Arc::new(block.clone()), Switch::DISABLE_ALL)
            .expect("builder attaches");
        builder_tip = k;
        tree.by_hash.insert(block.hash(), k);
        tree.nodes.push(TNode { id: k, parent, kind, difficulty: block.header().difficulty(), block });
    }
    builder.stop();
    tree
}

/// incremental construction of a tree with chosen parents and timestamp gaps
pub struct TreeBuilder {
    pub tree: Tree,
    builder: Option<Node>,
    builder_tip: u64,
}

impl TreeBuilder {
    pub fn new(genesis_epoch_length: u64) -> TreeBuilder {
        let cfg = ChainCfg { genesis_epoch_length, ..Default::default() };
        let (consensus, funds) = make_consensus(&cfg);
        let genesis_difficulty = consensus.genesis_block().header().difficulty();
        let builder = Node::temp(&consensus);
        TreeBuilder { tree: Tree { consensus, funds, genesis_difficulty, nodes: vec![], by_hash: HashMap::new() }, builder: Some(builder), builder_tip: 0 }
    }
    /// adds a valid block on top of `parent` (0 = genesis); returns its id
    pub fn add(&mut self, parent: u64, ts_delta: u64) -> u64 {
        if parent != self.builder_tip {
            self.builder.take().unwrap().stop();
            let b = Node::temp(&self.tree.consensus);
            for id in self.tree.path(parent) {
                b.chain().blocking_process_block_with_switch(Arc::new(self.tree.node(id).block.clone()), Switch::DISABLE_ALL).expect("replay on builder");
            }
            self.builder = Some(b);
        }
        let k = self.tree.nodes.len() as u64 + 1;
        let block = build_block(self.builder.as_ref().unwrap(), &BlockPlan { ts_delta, nonce: k as u128, ..Default::default() });
        self.builder.as_ref().unwrap().chain().blocking_process_block_with_switch(Arc::new(block.clone()), Switch::DISABLE_ALL).expect("builder attaches");
        self.builder_tip = k;
        self.tree.by_hash.insert(block.hash(), k);
        self.tree.nodes.push(TNode { id: k, parent, kind: Kind::Valid, difficulty: block.header().difficulty(), block });
        k
    }
    pub fn finish(mut self) -> Tree {
        if let Some(b) = self.builder.take() { b.stop(); }
        self.tree
    }
}

fn u128_of(x: &U256) -> u128 { format!("{}", x).parse().unwrap() }

/// A short heavy branch against a long light one: the main branch crosses its
/// first epoch quickly (difficulty up), the competing branch slowly (difficulty
/// down); the light branch grows several blocks above the heavy tip before it
/// overtakes, then is extended further.
pub fn gen_tree_heavy_vs_light(rng: &mut Rng) -> Tree {
    let gel = rng.range(2, 4);
    let mut tb = TreeBuilder::new(gel);
    let td = |t: &Tree, id: u64| -> u128 { t.path(id).iter().map(|i| u128_of(&t.node(*i).difficulty)).sum::<u128>() };
    // trial branches from genesis with different paces through the first epoch; each
    // ends with one block of the second epoch, whose difficulty depends on the pace
    let paces = [1u64, 40, 3_000, 200_000, 2_400_000, 7_000_000, 14_400_000, 40_000_000];
    let mut trials: Vec<(u64, u128)> = vec![]; // (tip id, difficulty of the second epoch)
    for _ in 0..5 {
        let pace = *rng.pick(&paces);
        let mut t = 0u64;
        for _ in 0..gel { t = tb.add(t, std::cmp::max(1, pace / gel)); }
        t = tb.add(t, rng.range(1, 900));
        let d = u128_of(&tb.tree.node(t).difficulty);
        trials.push((t, d));
    }
    // a heavier pace against a lighter one: the pair with the smallest ratio above 1
    trials.sort_by_key(|x| x.1);
    let mut best: Option<(usize, usize)> = None;
    for i in 0..trials.len() {
        for j in 0..trials.len() {
            if trials[j].1 > trials[i].1 {
                let better = match best { None => true, Some((bi, bj)) => trials[j].1 * trials[bi].1 < trials[bj].1 * trials[i].1 };
                if better { best = Some((i, j)); }
            }
        }
    }
    let (li, hi) = best.unwrap_or((0, trials.len() - 1));
    let (light_tip, _) = trials[li];
    let mut a = trials[hi].0;
    for _ in 0..rng.range(0, 1) { a = tb.add(a, rng.range(1, 900)); }
    let td_a = td(&tb.tree, a);
    let mut b = light_tip;
    let mut over = 0;
    let mut guard = 0;
    while over < 3 && guard < 70 {
        guard += 1;
        b = tb.add(b, rng.range(1, 900));
        if td(&tb.tree, b) > td_a { over += 1; }
    }
    if rng.chance(1, 2) { let mut x = a; for _ in 0..rng.range(1, 3) { x = tb.add(x, rng.range(1, 900)); } }
    tb.finish()
}
