//! A real CKB node core (Shared + chain services, dummy PoW, always-success
//! scripts) driven in-process, and construction of fully valid blocks on top
//! of any node's tip (cellbase reward, DAO field, epoch, chain-root extension
//! are computed with the node's own snapshot, the way a miner's template is).
use ckb_app_config::DBConfig;
use ckb_chain::{ChainController, ChainServiceScope, LonelyBlock, VerifyResult};
use ckb_chain_spec::consensus::{build_genesis_epoch_ext, Consensus, ConsensusBuilder, ProposalWindow};
use ckb_dao::DaoCalculator;
use ckb_dao_utils::genesis_dao_data;
use ckb_reward_calculator::RewardCalculator;
use ckb_shared::{Shared, SharedBuilder};
use ckb_store::ChainStore;
use ckb_test_chain_utils::{always_success_cell, always_success_cellbase};
use ckb_types::{
    bytes::Bytes,
    core::{
        cell::{resolve_transaction, OverlayCellProvider, TransactionsProvider},
        BlockBuilder, BlockView, Capacity, EpochNumberWithFraction, HeaderView, TransactionBuilder,
        TransactionView, UncleBlockView,
    },
    packed::{self, Byte32, CellDep, CellInput, CellOutput, OutPoint, ProposalShortId},
    prelude::*,
    utilities::difficulty_to_compact,
    U256,
};
use std::collections::HashSet;
use std::path::{Path, PathBuf};
use std::sync::mpsc;
use std::sync::Arc;

pub const GENESIS_TS: u64 = 1_700_000_000_000;

#[derive(Clone)]
pub struct ChainCfg {
    pub genesis_epoch_length: u64,
    pub window: (u64, u64),
    pub fund_txs: usize,
    pub fund_outputs: usize,
    pub permanent_difficulty: bool,
    pub genesis_difficulty: u64,
    pub epoch_duration_target: u64,
    pub max_proposals: Option<u64>,
    /// consensus max_block_cycles (None = the builder's default)
    pub max_block_cycles: Option<u64>,
}

impl Default for ChainCfg {
    fn default() -> Self {
        ChainCfg {
            genesis_epoch_length: 1000,
            window: (2, 10),
            fund_txs: 6,
            fund_outputs: 4,
            permanent_difficulty: false,
            genesis_difficulty: 1000,
            epoch_duration_target: 4 * 60 * 60,
            max_proposals: None,
            max_block_cycles: None,
        }
    }
}

pub fn always_success_dep() -> CellDep {
    let (cell, data, script) = always_success_cell();
    let tx = TransactionBuilder::default()
        .input(CellInput::new(OutPoint::null(), 0))
        .output(cell.clone())
        .output_data(data.clone())
        .witness(script.clone().into_witness())
        .build();
    CellDep::new_builder().out_point(OutPoint::new(tx.hash(), 0)).build()
}

/// Genesis: the always-success cell plus `fund_txs` transactions with
/// `fund_outputs` spendable always-success-locked outputs each.
pub fn make_consensus(cfg: &ChainCfg) -> (Consensus, Vec<TransactionView>) {
    let (cell, data, script) = always_success_cell();
    let as_tx = TransactionBuilder::default()
        .input(CellInput::new(OutPoint::null(), 0))
        .output(cell.clone())
        .output_data(data.clone())
        .witness(script.clone().into_witness())
        .build();
    let funds: Vec<TransactionView> = (0..cfg.fund_txs as u64)
        .map(|i| {
            let mut b = TransactionBuilder::default().input(CellInput::new(OutPoint::null(), 0));
            for j in 0..cfg.fund_outputs as u64 {
                b = b
                    .output(
                        CellOutput::new_builder()
                            .capacity(Capacity::bytes(50_000 + (i * 16 + j) as usize).unwrap())
                            .lock(script.clone())
                            .build(),
                    )
                    .output_data(Bytes::from((i * 256 + j).to_le_bytes().to_vec()));
            }
            b.build()
        })
        .collect();
    let mut all: Vec<&TransactionView> = vec![&as_tx];
    all.extend(funds.iter());
    let dao = genesis_dao_data(all).unwrap();
    let compact = difficulty_to_compact(U256::from(cfg.genesis_difficulty));
    let genesis = BlockBuilder::default()
        .timestamp(GENESIS_TS)
        .compact_target(compact)
        .dao(dao)
        .transaction(as_tx)
        .transactions(funds.clone())
        .build();
    let epoch_ext = build_genesis_epoch_ext(
        Capacity::shannons(1_917_808_21917808),
        compact,
        cfg.genesis_epoch_length,
        cfg.epoch_duration_target,
        (1, 40),
    );
    let mut builder = ConsensusBuilder::new(genesis, epoch_ext)
        .cellbase_maturity(EpochNumberWithFraction::new(0, 0, 1))
        .tx_proposal_window(ProposalWindow(cfg.window.0, cfg.window.1))
        .permanent_difficulty_in_dummy(cfg.permanent_difficulty)
        .epoch_duration_target(cfg.epoch_duration_target);
    if let Some(n) = cfg.max_proposals {
        builder = builder.max_block_proposals_limit(n);
    }
    if let Some(c) = cfg.max_block_cycles {
        builder = builder.max_block_cycles(c);
    }
    let consensus = builder.build();
    (consensus, funds)
}

pub struct Node {
    pub shared: Shared,
    scope: Option<ChainServiceScope>,
    pub dir: Option<PathBuf>,
}

impl Node {
    /// in a temporary DB
    pub fn temp(consensus: &Consensus) -> Node {
        let (shared, mut pack) = SharedBuilder::with_temp_db()
            .consensus(consensus.clone())
            .build()
            .expect("build shared");
        let scope = ChainServiceScope::new(pack.take_chain_services_builder());
        Node { shared, scope: Some(scope), dir: None }
    }

    /// on disk (can be re-opened): `dir/db`, optional freezer in `dir/ancient`
    pub fn on_disk(consensus: &Consensus, dir: &Path, with_freezer: bool) -> Node {
        std::fs::create_dir_all(dir.join("header_map")).unwrap();
        let db_config = DBConfig { path: dir.join("db"), ..Default::default() };
        let ancient = if with_freezer {
            std::fs::create_dir_all(dir.join("ancient")).unwrap();
            Some(dir.join("ancient"))
        } else {
            None
        };
        // one runtime for every node of the process: a runtime per node leaks its 16 worker threads
        static RT: std::sync::OnceLock<ckb_async_runtime::Handle> = std::sync::OnceLock::new();
        let handle = RT.get_or_init(ckb_async_runtime::new_background_runtime).clone();
        let (shared, mut pack) = SharedBuilder::new("hx", dir, &db_config, ancient, handle, consensus.clone())
            .expect("open db")
            .header_map_tmp_dir(Some(dir.join("header_map")))
            .store_config(ckb_app_config::StoreConfig { freezer_enable: with_freezer, ..Default::default() })
            .build()
            .expect("build shared");
        let scope = ChainServiceScope::new(pack.take_chain_services_builder());
        Node { shared, scope: Some(scope), dir: Some(dir.to_path_buf()) }
    }

    /// opens the store of an on-disk node without starting the chain services (no start-up recovery),
    /// lets `f` look at it, and closes it again
    pub fn peek<R>(consensus: &Consensus, dir: &Path, f: impl FnOnce(&Shared) -> R) -> R {
        std::fs::create_dir_all(dir.join("header_map")).unwrap();
        let db_config = DBConfig { path: dir.join("db"), ..Default::default() };
        static RT: std::sync::OnceLock<ckb_async_runtime::Handle> = std::sync::OnceLock::new();
        let handle = RT.get_or_init(ckb_async_runtime::new_background_runtime).clone();
        let (shared, pack) = SharedBuilder::new("hx", dir, &db_config, None, handle, consensus.clone())
            .expect("open db")
            .header_map_tmp_dir(Some(dir.join("header_map")))
            .build()
            .expect("build shared");
        let r = f(&shared);
        drop(pack);
        drop(shared);
        r
    }

    pub fn chain(&self) -> &ChainController {
        self.scope.as_ref().unwrap().chain_controller()
    }

    pub fn tip(&self) -> HeaderView {
        self.shared.snapshot().tip_header().clone()
    }

    pub fn total_difficulty(&self) -> U256 {
        self.shared.snapshot().total_difficulty().clone()
    }

    /// Delivers a block and waits for its verdict.  A verdict that never comes (the verify callback is
    /// lost: the caller of blocking_process_block would hang for good) is turned into an error that carries
    /// what the node says about the block and its parent.
    pub fn process(&self, block: &BlockView) -> VerifyResult {
        let rx = self.deliver(block);
        let limit = std::time::Duration::from_secs(hx_common::env_u64("HX_PROCESS_TIMEOUT", 180));
        match rx.recv_timeout(limit) {
            Ok(r) => r,
            Err(_) => {
                use ckb_store::ChainStore;
                let ph = block.parent_hash();
                let snap = self.shared.snapshot();
                let diag = format!(
                    "block {}-{:x} parent {:x}: status(block)={:?} status(parent)={:?} parent_in_header_map={} snapshot.ext(parent)={:?} store.ext(parent)={:?} store.header(parent)={} store.header(block)={} snapshot tip {}-{:x} store tip {:?} unverified tip {}",
                    block.number(), block.hash(), ph,
                    self.shared.get_block_status(&block.hash()), self.shared.get_block_status(&ph),
                    self.shared.header_map().contains_key(&ph),
                    snap.get_block_ext(&ph).map(|e| e.verified), self.shared.store().get_block_ext(&ph).map(|e| e.verified),
                    self.shared.store().get_block_header(&ph).is_some(), self.shared.store().get_block_header(&block.hash()).is_some(),
                    snap.tip_number(), snap.tip_hash(), self.shared.store().get_tip_header().map(|h| h.number()),
                    self.shared.get_unverified_tip().number());
                Err(ckb_error::InternalErrorKind::System.other(format!("HX-NO-VERDICT within {} s: {diag}", limit.as_secs())).into())
            }
        }
    }

    /// asynchronous delivery; the receiver gets the verdict when (if) the block is processed
    pub fn deliver(&self, block: &BlockView) -> mpsc::Receiver<VerifyResult> {
        let (tx, rx) = mpsc::channel();
        let tx = std::sync::Mutex::new(tx);
        self.chain().asynchronous_process_lonely_block(LonelyBlock {
            block: Arc::new(block.clone()),
            switch: None,
            verify_callback: Some(Box::new(move |r: VerifyResult| {
                let _ = tx.lock().unwrap().send(r);
            })),
        });
        rx
    }

    /// stop the chain services and release the DB
    pub fn stop(mut self) {
        if let Some(scope) = self.scope.take() {
            drop(scope);
        }
    }
}

#[derive(Clone, Default)]
pub struct BlockPlan {
    pub proposals: Vec<ProposalShortId>,
    pub txs: Vec<TransactionView>,
    pub uncles: Vec<UncleBlockView>,
    /// milliseconds after the parent's timestamp (>= 1)
    pub ts_delta: u64,
    /// distinguishes siblings with otherwise equal content
    pub nonce: u128,
}

/// numbers that stand for the REAL short id of a transaction the harness holds (c20's verifier probe commits it)
static REAL_SHORT_IDS: std::sync::Mutex<Vec<(u64, ProposalShortId)>> = std::sync::Mutex::new(Vec::new());
pub fn register_real_short_id(n: u64, id: ProposalShortId) {
    let mut g = REAL_SHORT_IDS.lock().unwrap();
    if g.len() > 4096 { g.clear(); }
    g.push((n, id));
}

pub fn short_id(n: u64) -> ProposalShortId {
    if n >= REAL_ID_BASE {
        if let Some((_, id)) = REAL_SHORT_IDS.lock().unwrap().iter().find(|(m, _)| *m == n) { return id.clone(); }
    }
    let mut b = [0u8; 10];
    b[..8].copy_from_slice(&n.to_le_bytes());
    b[9] = 0x5a;
    ProposalShortId::new(b)
}
pub const REAL_ID_BASE: u64 = 900_000_000;

pub fn short_id_num(id: &ProposalShortId) -> Option<u64> {
    let raw = id.as_slice();
    if raw[9] == 0x5a && raw[8] == 0 {
        Some(u64::from_le_bytes(raw[..8].try_into().unwrap()))
    } else {
        REAL_SHORT_IDS.lock().unwrap().iter().rev().find(|(_, x)| x == id).map(|(m, _)| *m)
    }
}

/// Builds a fully valid child of `builder`'s current tip.
pub fn build_block(builder: &Node, plan: &BlockPlan) -> BlockView {
    build_block_builder(builder, plan).build()
}

pub fn build_block_builder(builder: &Node, plan: &BlockPlan) -> BlockBuilder {
    let snapshot = builder.shared.snapshot();
    let consensus = snapshot.consensus();
    let parent = snapshot.tip_header().clone();
    let number = parent.number() + 1;
    let epoch = consensus
        .next_epoch_ext(&parent, &snapshot.borrow_as_data_loader())
        .expect("next epoch")
        .epoch();
    let (_, reward) = RewardCalculator::new(consensus, snapshot.as_ref())
        .block_reward_to_finalize(&parent)
        .expect("reward");
    let cellbase = always_success_cellbase(number, reward.total, consensus);
    let mut all = vec![cellbase.clone()];
    all.extend(plan.txs.iter().cloned());
    let dao = {
        let provider = TransactionsProvider::new(all.iter());
        let overlay = OverlayCellProvider::new(&provider, snapshot.as_ref());
        let mut seen = HashSet::new();
        let rtxs: Vec<_> = all
            .iter()
            .map(|tx| resolve_transaction(tx.clone(), &mut seen, &overlay, snapshot.as_ref()).expect("resolve"))
            .collect();
        let loader = snapshot.borrow_as_data_loader();
        DaoCalculator::new(consensus, &loader)
            .dao_field(rtxs.iter(), &parent)
            .expect("dao")
    };
    let mut b = BlockBuilder::default()
        .parent_hash(parent.hash())
        .number(number)
        .timestamp(parent.timestamp() + std::cmp::max(1, plan.ts_delta))
        .epoch(epoch.number_with_fraction(number))
        .compact_target(epoch.compact_target())
        .nonce(plan.nonce)
        .dao(dao)
        .transaction(cellbase)
        .transactions(plan.txs.clone())
        .proposals(plan.proposals.clone())
        .uncles(plan.uncles.clone());
    if consensus.rfc0044_active(parent.epoch().number()) {
        let root = snapshot
            .chain_root_mmr(parent.number())
            .get_root()
            .expect("chain root");
        let bytes: packed::Bytes = root.calc_mmr_hash().as_bytes().into();
        b = b.extension(Some(bytes));
    }
    b
}

/// A transaction spending the given always-success cells into `n_out` outputs, paying `fee`.
pub fn spend(inputs: &[(OutPoint, u64)], n_out: usize, fee: u64, tag: u64) -> TransactionView {
    spend_with_locks(inputs, n_out, fee, tag, false)
}

/// `vary_locks`: every transaction pays to its own lock (always_success with the tag as args), so that the scripts a
/// block touches — what its block filter is built from — differ from block to block and from branch to branch
pub fn spend_with_locks(inputs: &[(OutPoint, u64)], n_out: usize, fee: u64, tag: u64, vary_locks: bool) -> TransactionView {
    let (_, _, script) = always_success_cell();
    let script = if vary_locks { script.clone().as_builder().args(Bytes::from(tag.to_le_bytes().to_vec()).pack()).build() } else { script.clone() };
    let total: u64 = inputs.iter().map(|(_, c)| *c).sum();
    let each = (total - fee) / n_out as u64;
    let rem = (total - fee) % n_out as u64;
    let mut b = TransactionBuilder::default().cell_dep(always_success_dep());
    for (op, _) in inputs {
        b = b.input(CellInput::new(op.clone(), 0));
    }
    for i in 0..n_out {
        let cap = if i == 0 { each + rem } else { each };
        b = b
            .output(
                CellOutput::new_builder()
                    .capacity(Capacity::shannons(cap))
                    .lock(script.clone())
                    .build(),
            )
            .output_data(Bytes::from(tag.to_le_bytes().to_vec()));
    }
    b.build()
}

pub fn hash_hex(h: &Byte32) -> String {
    hx_common::hex(h.as_slice())
}

pub fn u256_dec(x: &U256) -> String {
    format!("{}", x)
}

thread_local! {
    static LAST_HISTORY: std::cell::RefCell<serde_json::Value> = std::cell::RefCell::new(serde_json::Value::Null);
}
/// remembers the history executed so far so that a panic can be reported with its input
pub fn note_history(h: &[serde_json::Value]) {
    LAST_HISTORY.with(|l| *l.borrow_mut() = serde_json::Value::Array(h.to_vec()));
}
pub fn last_history() -> serde_json::Value {
    LAST_HISTORY.with(|l| l.borrow().clone())
}
