//! C02: after every change of the main chain (and from snapshots taken while
//! blocks are being processed) the canonical-chain columns are dumped by
//! iteration and compared with a replay of the main chain.
use crate::hist::*;
use crate::node::*;
use ckb_db::IteratorMode;
use ckb_db_schema::{COLUMN_CELL, COLUMN_CELL_DATA, COLUMN_CELL_DATA_HASH, COLUMN_INDEX, COLUMN_TRANSACTION_INFO, COLUMN_UNCLES};
use ckb_store::ChainStore;
use ckb_types::core::BlockView;
use ckb_types::packed::{self, Byte32};
use ckb_types::prelude::*;
use hx_common::*;
use serde_json::{json, Value};
use std::collections::{BTreeMap, BTreeSet, HashMap};

pub struct Out {
    pub viol: Vec<Value>,
    pub evaluations: u64,
    pub distinct: BTreeSet<String>,
    pub stats: BTreeMap<String, u64>,
    pub samples: Vec<Value>,
}

#[derive(Clone, Default, PartialEq, Eq, Debug)]
pub struct Dump {
    /// (tx id, output index) -> (block id, tx index)
    pub cells: BTreeMap<(u64, u32), (u64, u32)>,
    /// tx id -> (block id, index)
    pub txinfo: BTreeMap<u64, (u64, u32)>,
    /// number -> block id  (and the reverse direction, checked for symmetry)
    pub index: BTreeMap<u64, u64>,
    pub rindex: BTreeMap<u64, u64>,
    pub uncles: BTreeSet<u64>,
    /// the stored values byte for byte (hex): CellEntry (output, creating block's hash / number / epoch, index, data size),
    /// CellDataEntry, data hash, TransactionInfo (block number / epoch, key)
    pub cell_bytes: BTreeMap<(u64, u32), String>,
    pub cell_data: BTreeMap<(u64, u32), String>,
    pub cell_data_hash: BTreeMap<(u64, u32), String>,
    pub txinfo_bytes: BTreeMap<u64, String>,
}

const UNKNOWN: u64 = 9_000_000;

pub fn dump_store<S: ChainStore>(s: &S, block_id: &HashMap<Byte32, u64>, tx_id: &HashMap<Byte32, u64>) -> Dump {
    let bid = |h: &[u8]| -> u64 { Byte32::from_slice(h).ok().and_then(|h| block_id.get(&h).cloned()).unwrap_or(UNKNOWN) };
    let tid = |h: &[u8]| -> u64 { Byte32::from_slice(h).ok().and_then(|h| tx_id.get(&h).cloned()).unwrap_or(UNKNOWN) };
    let mut d = Dump::default();
    for (k, v) in s.get_iter(COLUMN_CELL, IteratorMode::Start) {
        let idx = u32::from_be_bytes(k[32..36].try_into().unwrap());
        let e = packed::CellEntryReader::from_slice_should_be_ok(&v);
        let ti: u32 = e.index().into();
        d.cells.insert((tid(&k[..32]), idx), (bid(e.block_hash().as_slice()), ti));
        d.cell_bytes.insert((tid(&k[..32]), idx), hex(&v));
    }
    for (k, v) in s.get_iter(COLUMN_CELL_DATA, IteratorMode::Start) {
        let idx = u32::from_be_bytes(k[32..36].try_into().unwrap());
        d.cell_data.insert((tid(&k[..32]), idx), hex(&v));
    }
    for (k, v) in s.get_iter(COLUMN_CELL_DATA_HASH, IteratorMode::Start) {
        let idx = u32::from_be_bytes(k[32..36].try_into().unwrap());
        d.cell_data_hash.insert((tid(&k[..32]), idx), hex(&v));
    }
    for (k, v) in s.get_iter(COLUMN_TRANSACTION_INFO, IteratorMode::Start) {
        let e = packed::TransactionInfoReader::from_slice_should_be_ok(&v);
        let ti: u32 = e.key().index().into();
        d.txinfo.insert(tid(&k), (bid(e.key().block_hash().as_slice()), ti));
        d.txinfo_bytes.insert(tid(&k), hex(&v));
    }
    for (k, v) in s.get_iter(COLUMN_INDEX, IteratorMode::Start) {
        if k.len() == 8 {
            d.index.insert(u64::from_le_bytes(k[..8].try_into().unwrap()), bid(&v));
        } else {
            d.rindex.insert(bid(&k), u64::from_le_bytes(v[..8].try_into().unwrap()));
        }
    }
    for (k, _v) in s.get_iter(COLUMN_UNCLES, IteratorMode::Start) {
        d.uncles.insert(bid(&k));
    }
    d
}

/// the specification: replay the main chain from genesis
pub fn replay(chain: &[BlockView], block_id: &HashMap<Byte32, u64>, tx_id: &HashMap<Byte32, u64>) -> Dump {
    let mut d = Dump::default();
    for b in chain {
        let b_id = block_id[&b.hash()];
        d.index.insert(b.number(), b_id);
        d.rindex.insert(b_id, b.number());
        for u in b.uncles().into_iter() {
            d.uncles.insert(*block_id.get(&u.hash()).unwrap_or(&UNKNOWN));
        }
        for (ti, tx) in b.transactions().iter().enumerate() {
            let t_id = tx_id[&tx.hash()];
            d.txinfo.insert(t_id, (b_id, ti as u32));
            let info = packed::TransactionInfo::new_builder()
                .block_number(b.number())
                .block_epoch(b.epoch())
                .key(packed::TransactionKey::new_builder().block_hash(b.hash()).index(ti).build())
                .build();
            d.txinfo_bytes.insert(t_id, hex(info.as_slice()));
            for (i, (output, data)) in tx.outputs_with_data_iter().enumerate() {
                d.cells.insert((t_id, i as u32), (b_id, ti as u32));
                let entry = packed::CellEntry::new_builder()
                    .output(output)
                    .block_hash(b.hash())
                    .block_number(b.number())
                    .block_epoch(b.epoch())
                    .index(ti)
                    .data_size(data.len() as u64)
                    .build();
                d.cell_bytes.insert((t_id, i as u32), hex(entry.as_slice()));
                if !data.is_empty() {
                    let dh = packed::CellOutput::calc_data_hash(&data);
                    let de = packed::CellDataEntry::new_builder().output_data(data).output_data_hash(dh.clone()).build();
                    d.cell_data.insert((t_id, i as u32), hex(de.as_slice()));
                    d.cell_data_hash.insert((t_id, i as u32), hex(dh.as_slice()));
                } else {
                    d.cell_data.insert((t_id, i as u32), String::new());
                    d.cell_data_hash.insert((t_id, i as u32), String::new());
                }
            }
        }
        for tx in b.transactions().iter().skip(1) {
            for op in tx.input_pts_iter() {
                let t = *tx_id.get(&op.tx_hash()).unwrap_or(&UNKNOWN);
                let i: u32 = op.index().into();
                d.cells.remove(&(t, i));
                d.cell_bytes.remove(&(t, i));
                d.cell_data.remove(&(t, i));
                d.cell_data_hash.remove(&(t, i));
            }
        }
    }
    d
}

fn sblock_coq(h: &Hist, id: u64) -> String {
    let b = h.block_by_id(id);
    let txs = coq_list(&b.transactions(), |tx| {
        let ins: Vec<(u64, u32)> = if tx.is_cellbase() || b.number() == 0 { vec![] } else {
            tx.input_pts_iter().map(|op| { let i: u32 = op.index().into(); (*h.tx_id.get(&op.tx_hash()).unwrap_or(&UNKNOWN), i) }).collect()
        };
        format!("mkTx {} {} {}", coq_n(h.tx_id[&tx.hash()] as u128), coq_list(&ins, |(t, i)| format!("({}, {})", coq_n(*t as u128), coq_nat(*i as u64))), coq_nat(tx.outputs().len() as u64))
    });
    let uncles: Vec<u64> = b.uncles().into_iter().map(|u| *h.block_id.get(&u.hash()).unwrap_or(&UNKNOWN)).collect();
    format!("mkSB {} {} {} {}", coq_n(id as u128), coq_nat(b.number()), txs, coq_list(&uncles, |u| coq_n(*u as u128)))
}

fn dump_coq(d: &Dump) -> String {
    let cells: Vec<_> = d.cells.iter().collect();
    let txi: Vec<_> = d.txinfo.iter().collect();
    let idx: Vec<_> = d.index.iter().collect();
    let unc: Vec<_> = d.uncles.iter().collect();
    format!("mkDump {} {} {} {}",
        coq_list(&cells, |((t, i), (b, ti))| format!("(({}, {}), mkCM {} {})", coq_n(*t as u128), coq_nat(*i as u64), coq_n(*b as u128), coq_nat(*ti as u64))),
        coq_list(&txi, |(t, (b, i))| format!("({}, mkTL {} {})", coq_n(**t as u128), coq_n(*b as u128), coq_nat(*i as u64))),
        coq_list(&idx, |(n, b)| format!("({}, {})", coq_nat(**n), coq_n(**b as u128))),
        coq_list(&unc, |u| coq_n(**u as u128)))
}

fn dump_json(d: &Dump) -> Value {
    json!({"live_cells": d.cells.len(), "tx_info": d.txinfo.len(), "index": d.index, "uncles": d.uncles})
}

pub fn diff_dumps(got: &Dump, want: &Dump) -> Option<String> {
    if got.cells != want.cells {
        let extra: Vec<_> = got.cells.iter().filter(|(k, v)| want.cells.get(*k) != Some(*v)).take(4).collect();
        let missing: Vec<_> = want.cells.iter().filter(|(k, v)| got.cells.get(*k) != Some(*v)).take(4).collect();
        return Some(format!("live cell set differs from the replay: in store but not in replay (first) {:?}; in replay but not in store {:?}", extra, missing));
    }
    if got.txinfo != want.txinfo { return Some("transaction-location index differs from the replay".into()); }
    if got.index != want.index || got.rindex != want.rindex { return Some("number<->hash index differs from the replay".into()); }
    if got.uncles != want.uncles { return Some("included-uncle index differs from the replay".into()); }
    if got.cell_bytes != want.cell_bytes {
        let first = got.cell_bytes.iter().find(|(k, v)| want.cell_bytes.get(*k) != Some(*v));
        return Some(format!("a live cell's stored entry (output / creating block's hash, number, epoch / index / data size) differs from the replay: cell {:?} stored {:?} replay {:?}",
            first.map(|(k, _)| k), first.map(|(_, v)| v), first.and_then(|(k, _)| want.cell_bytes.get(k))));
    }
    if got.cell_data != want.cell_data || got.cell_data_hash != want.cell_data_hash { return Some("the stored cell data / data hashes differ from the replay".into()); }
    if got.txinfo_bytes != want.txinfo_bytes { return Some("a stored TransactionInfo (block number / epoch / key) differs from the replay".into()); }
    None
}

/// An epoch provider whose statistics of a finished epoch are recomputed from the main chain's blocks
/// (uncles counted block by block, duration from the timestamps) instead of read off the accumulated
/// BlockExt counters: the independent side of "per-block epoch records agree with that chain".
struct WalkProvider<'a, S: ChainStore> { st: &'a S, main: &'a [BlockView] }
impl<'a, S: ChainStore> ckb_traits::EpochProvider for WalkProvider<'a, S> {
    fn get_epoch_ext(&self, h: &ckb_types::core::HeaderView) -> Option<ckb_types::core::EpochExt> {
        self.st.get_block_epoch_index(&h.hash()).and_then(|i| self.st.get_epoch_ext(&i))
    }
    fn get_block_hash(&self, n: u64) -> Option<Byte32> { self.main.get(n as usize).map(|b| b.hash()) }
    fn get_block_ext(&self, h: &Byte32) -> Option<ckb_types::core::BlockExt> { self.st.get_block_ext(h) }
    fn get_block_header(&self, h: &Byte32) -> Option<ckb_types::core::HeaderView> { self.st.get_block_header(h) }
    fn get_block_epoch(&self, header: &ckb_types::core::HeaderView) -> Option<ckb_traits::BlockEpoch> {
        let epoch = self.get_epoch_ext(header)?;
        if header.number() != epoch.start_number() + epoch.length() - 1 {
            return Some(ckb_traits::BlockEpoch::NonTailBlock { epoch });
        }
        let first = if epoch.is_genesis() { 1 } else { epoch.start_number() };
        let before = if epoch.is_genesis() { 0 } else { epoch.start_number() - 1 };
        let uncles: u64 = (first..=header.number()).map(|n| self.main[n as usize].uncles().data().len() as u64).sum();
        let duration = header.timestamp() - self.main[before as usize].timestamp();
        Some(ckb_traits::BlockEpoch::TailBlock { epoch, epoch_uncles_count: uncles, epoch_duration_in_milliseconds: duration })
    }
}

pub fn run(seed: u64, thorough: bool, out_dir: &std::path::Path, scratch: &std::path::Path) -> Out {
    let mut rng = Rng::new(seed ^ 0xC02);
    let mut out = Out { viol: vec![], evaluations: 0, distinct: BTreeSet::new(), stats: BTreeMap::new(), samples: vec![] };
    let shards = 8usize;
    let header = "From CKB Require Import Chain.Store.";
    let mut files: Vec<CaseFile> = (0..shards)
        .map(|i| { let mut cf = CaseFile::new(out_dir, &format!("cases_{:02}", i), header); cf.group("store", "scase", "check_scase"); cf })
        .collect();
    let mut descs: Vec<BTreeMap<String, Vec<Value>>> = (0..shards).map(|_| BTreeMap::new()).collect();
    let n_hist = hx_common::shard_share_usize(if thorough { 500 } else { 60 });
    for hi in 0..n_hist {
        let cfg = ChainCfg {
            window: *rng.pick(&[(1u64, 2u64), (1, 3), (2, 4), (2, 10)]),
            genesis_epoch_length: *rng.pick(&[4u64, 7, 1000]),
            ..Default::default()
        };
        let r = std::panic::catch_unwind(std::panic::AssertUnwindSafe(|| {
            let mut h = Hist::new(cfg.clone(), scratch.join(format!("n{hi}")), false);
            let mut steps: Vec<(Vec<u64>, Vec<u64>, Dump)> = vec![];
            let mut viol: Vec<Value> = vec![];
            let nsteps = rng.range(5, if thorough { 16 } else { 10 });
            let h_stats_epochs = std::cell::RefCell::new(0u64);
            {
                let mut obs = |h: &Hist, c: &Change| {
                    let node = h.node();
                    let got = dump_store(node.shared.store(), &h.block_id, &h.tx_id);
                    let main: Vec<BlockView> = h.main_chain().iter().map(|id| h.block_by_id(*id)).collect();
                    let want = replay(&main, &h.block_id, &h.tx_id);
                    if let Some(msg) = diff_dumps(&got, &want) {
                        viol.push(json!({"what": format!("after a {}: {}", c.what, msg), "detail": {"window": [h.cfg.window.0, h.cfg.window.1], "history": h.jops, "main_chain": h.main_chain()}}));
                    }
                    // the published snapshot must say the same
                    let snap = node.shared.snapshot();
                    let got_snap = dump_store(snap.as_ref(), &h.block_id, &h.tx_id);
                    if got_snap != got && snap.tip_hash() == node.shared.store().get_tip_header().unwrap().hash() {
                        viol.push(json!({"what": format!("after a {}: the published snapshot's columns differ from the store's although both have the same tip", c.what), "detail": {"history": h.jops}}));
                    }
                    // tip / per-block records
                    let tip = main.last().unwrap();
                    if snap.tip_hash() != tip.hash() || node.shared.store().get_tip_header().map(|t| t.hash()) != Some(tip.hash()) {
                        viol.push(json!({"what": "tip header record is not the last block of the main chain", "detail": {"history": h.jops}}));
                    }
                    // current-epoch record and per-block epoch records
                    {
                        let st = node.shared.store();
                        let want = st.get_block_epoch_index(&tip.hash()).and_then(|i| st.get_epoch_ext(&i));
                        let cur = st.get_current_epoch_ext();
                        if cur.is_none() || cur != want {
                            viol.push(json!({"what": format!("after a {}: the stored current-epoch record is not the epoch of the main chain's tip", c.what), "detail": {"history": h.jops, "stored_epoch_start": cur.as_ref().map(|e| e.start_number()), "tip_epoch_start": want.as_ref().map(|e| e.start_number()), "stored_last_hash_prev_epoch_is_tip_chain": cur.as_ref().map(|e| e.last_block_hash_in_previous_epoch()) == want.as_ref().map(|e| e.last_block_hash_in_previous_epoch())}}));
                        }
                        if Some(snap.epoch_ext().clone()) != want {
                            viol.push(json!({"what": format!("after a {}: the snapshot's epoch is not the epoch of the main chain's tip", c.what), "detail": {"history": h.jops}}));
                        }
                        // the epoch-by-number index (get_epoch_by_number, the freezer's threshold): epoch n of the
                        // MAIN chain for every n up to the tip's epoch, no row above it
                        {
                            let tip_epoch = tip.epoch().number();
                            for e in 0..=tip_epoch + 2 {
                                let got = st.get_epoch_index(e).and_then(|i| st.get_epoch_ext(&i));
                                let head = main.iter().find(|b| b.epoch().number() == e && b.epoch().index() == 0);
                                let want = head.and_then(|b| st.get_block_epoch_index(&b.hash())).and_then(|i| st.get_epoch_ext(&i));
                                if e <= tip_epoch {
                                    if got.is_none() || got != want {
                                        viol.push(json!({"what": format!("after a {}: the epoch-by-number index row of epoch {e} does not designate the main chain's epoch {e}", c.what),
                                            "detail": {"history": h.jops, "indexed_epoch_start": got.as_ref().map(|x| x.start_number()), "indexed_last_hash_of_previous_epoch_on_main_chain": got.as_ref().map(|x| snap.get_block_number(&x.last_block_hash_in_previous_epoch()).is_some()), "main_chain_epoch_start": want.as_ref().map(|x| x.start_number())}}));
                                        break;
                                    }
                                } else if got.is_some() {
                                    viol.push(json!({"what": format!("after a {}: the epoch-by-number index has a row for epoch {e}, above the tip's epoch {tip_epoch}", c.what), "detail": {"history": h.jops}}));
                                    break;
                                }
                            }
                        }
                        // the epoch record of every block that opens an epoch is what the difficulty adjustment gives
                        // for the finished epoch's true statistics
                        {
                            let wp = WalkProvider { st, main: &main };
                            for b in main.iter().filter(|b| b.number() > 0 && b.epoch().index() == 0) {
                                let parent = &main[b.number() as usize - 1];
                                let want = node.shared.consensus().next_epoch_ext(&parent.header(), &wp).map(|e| e.epoch());
                                let got = st.get_block_epoch_index(&b.hash()).and_then(|i| st.get_epoch_ext(&i));
                                if want.is_none() || want != got {
                                    viol.push(json!({"what": "the epoch record of a block that opens an epoch is not what next_epoch_ext gives for the finished epoch's statistics recomputed from the chain (uncles counted block by block, duration from the timestamps)",
                                        "detail": {"history": h.jops, "block": h.block_id[&b.hash()], "height": b.number(),
                                                   "stored": got.as_ref().map(|e| (e.length(), e.compact_target())), "recomputed": want.as_ref().map(|e| (e.length(), e.compact_target()))}}));
                                    break;
                                }
                                *h_stats_epochs.borrow_mut() += 1;
                            }
                        }
                        for b in &main {
                            let e = st.get_block_epoch_index(&b.hash()).and_then(|i| st.get_epoch_ext(&i));
                            match e {
                                Some(e) if e.number() == b.epoch().number() && e.start_number() <= b.number() && b.number() < e.start_number() + e.length() => {}
                                _ => { viol.push(json!({"what": "a main-chain block's epoch record does not cover the block", "detail": {"history": h.jops, "block": h.block_id[&b.hash()]}})); break; }
                            }
                        }
                    }
                    let mut td = ckb_types::U256::zero();
                    for b in &main {
                        td = td + b.header().difficulty();
                        match node.shared.store().get_block_ext(&b.hash()) {
                            Some(ext) => {
                                if ext.verified != Some(true) || ext.total_difficulty != td {
                                    viol.push(json!({"what": "a main-chain block's verification record (verified, total difficulty) disagrees with the chain", "detail": {"history": h.jops, "block": h.block_id[&b.hash()]}}));
                                }
                            }
                            None => viol.push(json!({"what": "a main-chain block has no verification record", "detail": {"history": h.jops, "block": h.block_id[&b.hash()]}})),
                        }
                    }
                    steps.push((c.detached.clone(), c.attached.clone(), got));
                };
                for _ in 0..nsteps {
                    if let Err(e) = h.random_step(&mut rng, &mut obs) {
                        viol.push(json!({"what": e, "detail": {"history": h.jops}}));
                        break;
                    }
                }
            }
            // render the Coq case
            let universe: Vec<u64> = (1..=h.blocks.len() as u64).collect();
            let case = format!("mkSCase ({}) {} {}", sblock_coq(&h, 0), coq_list(&universe, |id| sblock_coq(&h, *id)),
                coq_list(&steps, |(det, att, d)| format!("({}, {}, {})", coq_list(det, |id| sblock_coq(&h, *id)), coq_list(att, |id| sblock_coq(&h, *id)), dump_coq(d))));
            let desc = json!({"stream": "history", "window": [h.cfg.window.0, h.cfg.window.1], "genesis_epoch_length": h.cfg.genesis_epoch_length, "history": h.jops,
                              "dumps": steps.iter().map(|(d, a, dmp)| json!({"detached": d, "attached": a, "store": dump_json(dmp)})).collect::<Vec<_>>()});
            // a second, independent oracle: a fresh node that imports nothing but the final main chain;
            // the canonical columns must be byte-identical and the verification records equal
            {
                let main: Vec<BlockView> = h.main_chain().iter().map(|id| h.block_by_id(*id)).collect();
                let fresh = Node::temp(&h.consensus);
                let mut ok = true;
                for b in main.iter().skip(1) {
                    if fresh.process(b).is_err() { ok = false; viol.push(json!({"what": "a fresh node refuses a block of the main chain the node under test is on", "detail": {"history": h.jops, "block": h.block_id[&b.hash()]}})); break; }
                }
                if ok {
                    let raw = |n: &Node| -> BTreeMap<Vec<u8>, Vec<u8>> {
                        let mut m = BTreeMap::new();
                        for col in [COLUMN_CELL, COLUMN_CELL_DATA, COLUMN_CELL_DATA_HASH, COLUMN_INDEX, COLUMN_TRANSACTION_INFO, COLUMN_UNCLES] {
                            for (k, v) in n.shared.store().get_iter(col, IteratorMode::Start) { let mut key = col.as_bytes().to_vec(); key.push(b'/'); key.extend_from_slice(&k); m.insert(key, v.to_vec()); }
                        }
                        m
                    };
                    let (a, b) = (raw(h.node()), raw(&fresh));
                    if a != b {
                        let first = a.iter().find(|(k, v)| b.get(*k) != Some(*v)).map(|(k, _)| hex(k)).or_else(|| b.keys().find(|k| !a.contains_key(*k)).map(|k| hex(k)));
                        viol.push(json!({"what": "the canonical columns (cells, cell data, data hashes, number<->hash index, transaction locations, uncles) are not byte-identical to those of a fresh node that imported only the main chain",
                                         "detail": {"history": h.jops, "first_differing_key (column/key)": first, "rows": [a.len(), b.len()]}}));
                    }
                    let (sa, sb) = (h.node().shared.store(), fresh.shared.store());
                    for blk in &main {
                        let (ea, eb) = (sa.get_block_ext(&blk.hash()), sb.get_block_ext(&blk.hash()));
                        let same = match (&ea, &eb) {
                            (Some(x), Some(y)) => x.verified == y.verified && x.total_difficulty == y.total_difficulty && x.total_uncles_count == y.total_uncles_count && x.txs_fees == y.txs_fees && x.cycles == y.cycles && x.txs_sizes == y.txs_sizes,
                            _ => false,
                        };
                        if !same {
                            viol.push(json!({"what": "a main-chain block's verification record (verified, total difficulty, uncle count, fees, cycles, sizes) differs from that of a fresh node that imported only the main chain", "detail": {"history": h.jops, "block": h.block_id[&blk.hash()], "here": format!("{ea:?}"), "fresh": format!("{eb:?}")}}));
                            break;
                        }
                    }
                    if sa.get_current_epoch_ext() != sb.get_current_epoch_ext() || sa.get_tip_header().map(|t| t.hash()) != sb.get_tip_header().map(|t| t.hash()) {
                        viol.push(json!({"what": "tip header / current epoch record differ from those of a fresh node that imported only the main chain", "detail": {"history": h.jops}}));
                    }
                    *h.stats.entry("fresh_node_comparisons".into()).or_default() += 1;
                }
                fresh.stop();
            }
            *h.stats.entry("epoch_heads_recomputed".into()).or_default() += *h_stats_epochs.borrow();
            let stats = h.stats.clone();
            let key = format!("{:?}", h.jops);
            h.finish();
            (case, desc, viol, stats, key)
        }));
        out.evaluations += 1;
        match r {
            Err(p) => {
                let msg = p.downcast_ref::<String>().cloned().or_else(|| p.downcast_ref::<&str>().map(|s| s.to_string())).unwrap_or_default();
                out.viol.push(json!({"what": format!("the node panicked while processing a history: {msg}"), "detail": {"history_index": hi, "seed": seed, "history": last_history()}}));
            }
            Ok((case, desc, viol, stats, key)) => {
                out.viol.extend(viol);
                out.distinct.insert(key);
                for (k, v) in stats { *out.stats.entry(k).or_default() += v; }
                let sh = hi % shards;
                files[sh].push(0, case);
                if out.samples.is_empty() { out.samples.push(json!({"history": desc["history"], "window": desc["window"]})); }
                descs[sh].entry("store".into()).or_default().push(desc);
            }
        }
    }
    // ---- stream 2: snapshots taken by a reader thread while blocks are being processed
    let n_conc = hx_common::shard_share(if thorough { 60 } else { 8 });
    for ci in 0..n_conc {
        let cfg = ChainCfg { window: *rng.pick(&[(1u64, 2u64), (2, 4)]), genesis_epoch_length: *rng.pick(&[5u64, 1000]), ..Default::default() };
        let mut h = Hist::new(cfg.clone(), scratch.join(format!("c{ci}")), false);
        let mut noop = |_: &Hist, _: &Change| {};
        let target = rng.range(14, if thorough { 40 } else { 24 });
        let mut guard = 0;
        while (h.blocks.len() as u64) < target && guard < 80 {
            guard += 1;
            let tip = h.node().tip().number();
            let r = if tip >= 2 && rng.chance(1, 3) {
                let back = rng.range(1, 5);
                let from = rng.range(tip.saturating_sub(back), tip - 1);
                let extra = rng.range(1, 2);
                h.fork(&mut rng, from, tip - from + extra, &mut noop)
            } else { h.extend(&mut rng, &mut noop) };
            if r.is_err() { break; }
        }
        let blocks = h.blocks.clone();
        let block_id = h.block_id.clone();
        let tx_id = h.tx_id.clone();
        let consensus = h.consensus.clone();
        let jhist = h.jops.clone();
        h.finish();
        let r = std::panic::catch_unwind(std::panic::AssertUnwindSafe(|| {
            let node = Node::temp(&consensus);
            let shared = node.shared.clone();
            let stop = std::sync::Arc::new(std::sync::atomic::AtomicBool::new(false));
            let stop2 = stop.clone();
            let (bid, tid) = (block_id.clone(), tx_id.clone());
            let reader = std::thread::spawn(move || {
                let mut checked = 0u64;
                let mut bad: Vec<String> = vec![];
                let mut tips = BTreeSet::new();
                while !stop2.load(std::sync::atomic::Ordering::Relaxed) {
                    let snap = shared.snapshot();
                    let got = dump_store(snap.as_ref(), &bid, &tid);
                    let tip = snap.tip_number();
                    let main: Option<Vec<BlockView>> = (0..=tip).map(|n| snap.get_block_hash(n).and_then(|hh| snap.get_block(&hh))).collect();
                    match main {
                        None => bad.push(format!("snapshot with tip {tip}: a main-chain block is not readable through the snapshot")),
                        Some(main) => {
                            if main.last().map(|b| b.hash()) != Some(snap.tip_hash()) { bad.push(format!("snapshot with tip {tip}: number->hash index does not end at the snapshot's tip")); }
                            let want = replay(&main, &bid, &tid);
                            if let Some(msg) = diff_dumps(&got, &want) { bad.push(format!("snapshot with tip {tip}: {msg}")); }
                        }
                    }
                    tips.insert(tip);
                    checked += 1;
                }
                (checked, bad, tips.len())
            });
            // deliver in bursts
            let mut rxs = vec![];
            for (i, b) in blocks.iter().enumerate() {
                rxs.push(node.deliver(b));
                if i % 5 == 4 { std::thread::sleep(std::time::Duration::from_millis(2)); }
            }
            // every block gets its verdict eventually; a loaded machine only makes it later
            let mut timed_out = 0;
            for rx in rxs { if rx.recv_timeout(std::time::Duration::from_secs(180)).is_err() { timed_out += 1; } }
            if timed_out > 0 { *out.stats.entry("concurrent_deliveries_without_verdict_in_time".into()).or_default() += timed_out; }
            stop.store(true, std::sync::atomic::Ordering::Relaxed);
            let res = reader.join().unwrap();
            node.stop();
            res
        }));
        out.evaluations += 1;
        out.distinct.insert(format!("conc{:?}", jhist));
        match r {
            Err(_) => out.viol.push(json!({"what": "panic while taking snapshots during concurrent block processing", "detail": {"history": jhist}})),
            Ok((checked, bad, ntips)) => {
                *out.stats.entry("concurrent_snapshots_checked".into()).or_default() += checked;
                *out.stats.entry("concurrent_distinct_tips_seen".into()).or_default() += ntips as u64;
                if let Some(m) = bad.first() {
                    out.viol.push(json!({"what": format!("a snapshot taken while blocks were being processed is not a replay of its own main chain: {m}"), "detail": {"history": jhist, "bad_snapshots": bad.len(), "checked": checked}}));
                }
            }
        }
    }
    for (i, cf) in files.iter().enumerate() {
        cf.write().unwrap();
        std::fs::write(out_dir.join(format!("cases_{:02}.json", i)), serde_json::to_string(&descs[i]).unwrap()).unwrap();
    }
    out
}
