//! A history driver: a real on-disk node fed with transaction-bearing blocks —
//! extensions, competing branches that take over (longer, or shorter but
//! heavier after an epoch change), restarts and truncations.  After every
//! change of the main chain the caller's observer runs.
use crate::node::*;
use ckb_chain_spec::consensus::Consensus;
use ckb_store::ChainStore;
use ckb_types::core::cell::{CellProvider, CellStatus};
use ckb_types::core::{BlockView, TransactionView, UncleBlockView};
use ckb_types::packed::{Byte32, OutPoint};
use ckb_types::prelude::*;
use hx_common::Rng;
use serde_json::{json, Value};
use std::collections::{BTreeMap, HashMap, HashSet};
use std::path::PathBuf;

#[derive(Clone)]
pub struct PendingTx {
    pub tx: TransactionView,
    pub proposed_at: u64,
}

pub struct Hist {
    pub cfg: ChainCfg,
    pub consensus: Consensus,
    pub funds: Vec<TransactionView>,
    pub dir: PathBuf,
    pub node: Option<Node>,
    /// a long-lived service object bound to the node's Shared (c19: the block-filter service, one instance per node
    /// process as in the real node); dropped before the node is stopped
    pub node_bound: std::cell::RefCell<Option<Box<dyn std::any::Any>>>,
    /// transactions pay to locks of their own (c19: block filters that differ between blocks)
    pub vary_locks: bool,
    /// every block ever built (all branches), id = index + 1; genesis is id 0
    pub blocks: Vec<BlockView>,
    pub block_id: HashMap<Byte32, u64>,
    /// every transaction ever built or in genesis, id = index + 1
    pub txs: Vec<TransactionView>,
    pub tx_id: HashMap<Byte32, u64>,
    /// txs proposed but not yet committed on the chain ending at the keyed block
    pub pending: HashMap<Byte32, Vec<PendingTx>>,
    /// every spendable (always-success) output ever created, with capacity
    pub outs: Vec<(OutPoint, u64)>,
    pub used_uncles: HashSet<Byte32>,
    pub stash: Vec<BlockView>,
    pub jops: Vec<Value>,
    pub stats: BTreeMap<String, u64>,
    pub next_tag: u64,
    pub with_freezer: bool,
    /// candidate gaps (ms) between a block and its parent
    pub ts_choices: Vec<u64>,
}

pub struct Change {
    pub what: &'static str,
    pub detached: Vec<u64>,
    pub attached: Vec<u64>,
}

impl Hist {
    pub fn new(cfg: ChainCfg, dir: PathBuf, with_freezer: bool) -> Hist {
        let (consensus, funds) = make_consensus(&cfg);
        let _ = std::fs::remove_dir_all(&dir);
        let node = Node::on_disk(&consensus, &dir, with_freezer);
        let mut h = Hist {
            cfg, consensus, funds: funds.clone(), dir, node: Some(node),
            blocks: vec![], block_id: HashMap::new(), txs: vec![], tx_id: HashMap::new(),
            pending: HashMap::new(), outs: vec![], used_uncles: HashSet::new(), stash: vec![],
            node_bound: std::cell::RefCell::new(None), vary_locks: false,
            jops: vec![], stats: BTreeMap::new(), next_tag: 1, with_freezer, ts_choices: vec![1, 20, 900, 15_000, 700_000, 3_000_000],
        };
        let genesis = h.consensus.genesis_block().clone();
        h.block_id.insert(genesis.hash(), 0);
        for tx in genesis.transactions() {
            h.register_tx(&tx);
        }
        for f in &funds {
            for (i, o) in f.outputs().into_iter().enumerate() {
                let cap: u64 = o.capacity().into();
                h.outs.push((OutPoint::new(f.hash(), i as u32), cap));
            }
        }
        h.pending.insert(genesis.hash(), vec![]);
        h
    }

    pub fn node(&self) -> &Node {
        self.node.as_ref().unwrap()
    }

    fn register_tx(&mut self, tx: &TransactionView) -> u64 {
        if let Some(i) = self.tx_id.get(&tx.hash()) {
            return *i;
        }
        self.txs.push(tx.clone());
        let id = self.txs.len() as u64;
        self.tx_id.insert(tx.hash(), id);
        id
    }

    fn register_block(&mut self, b: &BlockView) -> u64 {
        if let Some(i) = self.block_id.get(&b.hash()) {
            return *i;
        }
        self.blocks.push(b.clone());
        let id = self.blocks.len() as u64;
        self.block_id.insert(b.hash(), id);
        for tx in b.transactions() {
            self.register_tx(&tx);
        }
        id
    }

    pub fn block_by_id(&self, id: u64) -> BlockView {
        if id == 0 { self.consensus.genesis_block().clone() } else { self.blocks[id as usize - 1].clone() }
    }

    /// ids of the main chain of the node, genesis first
    pub fn main_chain(&self) -> Vec<u64> {
        let snap = self.node().shared.snapshot();
        (0..=snap.tip_number())
            .map(|n| *self.block_id.get(&snap.get_block_hash(n).expect("main hash")).expect("known block"))
            .collect()
    }

    /// Plans and builds the next block on `builder`'s tip (which is a block of this history).
    pub fn build_next(&mut self, rng: &mut Rng, builder: &Node, allow_uncles: bool) -> BlockView {
        let snap = builder.shared.snapshot();
        let parent = snap.tip_header().clone();
        let number = parent.number() + 1;
        let (wc, wf) = self.cfg.window;
        let mut pend = self.pending.get(&parent.hash()).cloned().unwrap_or_default();
        // drop proposals that left the window
        pend.retain(|p| number <= p.proposed_at + wf);
        // ---- commit: pending txs inside the window whose inputs are live (or created by an earlier commit of this block)
        let mut commit: Vec<TransactionView> = vec![];
        let mut created: HashSet<OutPoint> = HashSet::new();
        let mut spent: HashSet<OutPoint> = HashSet::new();
        let mut keep: Vec<PendingTx> = vec![];
        for p in pend.into_iter() {
            let in_window = number >= p.proposed_at + wc && number <= p.proposed_at + wf;
            let want = in_window && rng.chance(3, 4) && commit.len() < 6;
            let ok = want
                && p.tx.input_pts_iter().all(|op| {
                    !spent.contains(&op)
                        && (created.contains(&op) || matches!(snap.cell(&op, false), CellStatus::Live(_)))
                });
            if ok {
                for op in p.tx.input_pts_iter() { spent.insert(op); }
                for op in p.tx.output_pts_iter() { created.insert(op); }
                commit.push(p.tx.clone());
            } else {
                keep.push(p);
            }
        }
        // ---- propose: new txs over live cells, over outputs of pending txs (chains), sometimes conflicting
        let mut proposals = vec![];
        let n_new = rng.below(4);
        for _ in 0..n_new {
            let mut cands: Vec<(OutPoint, u64)> = self
                .outs
                .iter()
                .filter(|(op, _)| !spent.contains(op) && (created.contains(op) || matches!(snap.cell(op, false), CellStatus::Live(_))))
                .cloned()
                .collect();
            // outputs of still-pending txs: a child proposed before its parent is committed
            if rng.chance(1, 3) {
                for p in &keep {
                    for (i, o) in p.tx.outputs().into_iter().enumerate() {
                        let cap: u64 = o.capacity().into();
                        cands.push((OutPoint::new(p.tx.hash(), i as u32), cap));
                    }
                }
            }
            if cands.is_empty() { break; }
            let k = std::cmp::min(cands.len() as u64, rng.range(1, 2)) as usize;
            let mut ins = vec![];
            for _ in 0..k {
                let c = rng.pick(&cands).clone();
                if !ins.iter().any(|(o, _): &(OutPoint, u64)| *o == c.0) { ins.push(c); }
            }
            let total: u64 = ins.iter().map(|(_, c)| *c).sum();
            let n_out = rng.range(1, 3) as usize;
            let fee = rng.range(0, 5000);
            if (total - fee) / (n_out as u64) < 70_00000000 { continue; }
            self.next_tag += 1;
            let tx = spend_with_locks(&ins, n_out, fee, self.next_tag, self.vary_locks);
            self.register_tx(&tx);
            for (i, o) in tx.outputs().into_iter().enumerate() {
                let cap: u64 = o.capacity().into();
                self.outs.push((OutPoint::new(tx.hash(), i as u32), cap));
            }
            proposals.push(tx.proposal_short_id());
            keep.push(PendingTx { tx, proposed_at: number });
            *self.stats.entry("txs_proposed".into()).or_default() += 1;
        }
        // sometimes re-propose a pending tx so that it stays in the window
        if !keep.is_empty() && rng.chance(1, 4) {
            let i = rng.below(keep.len() as u64) as usize;
            let id = keep[i].tx.proposal_short_id();
            if !proposals.contains(&id) { proposals.push(id); keep[i].proposed_at = number; }
        }
        // ---- uncles from abandoned branches
        let mut uncles: Vec<UncleBlockView> = vec![];
        if allow_uncles && rng.chance(1, 3) {
            for u in self.stash.iter() {
                // the stash may hold a block twice (abandoned, revived and abandoned again)
                if uncles.len() < 2
                    && !uncles.iter().any(|x| x.hash() == u.hash())
                    && !self.used_uncles.contains(&u.hash())
                    && u.number() < number
                    && snap.get_block_number(&u.hash()).is_none()
                    && snap.get_block_number(&u.parent_hash()).is_some()
                    && !snap.is_uncle(&u.hash())
                    && u.epoch().number() == self
                        .consensus
                        .next_epoch_ext(&parent, &snap.borrow_as_data_loader())
                        .unwrap()
                        .epoch()
                        .number()
                {
                    uncles.push(u.as_uncle());
                }
            }
        }
        let plan = BlockPlan {
            proposals,
            txs: commit.clone(),
            uncles: uncles.clone(),
            ts_delta: *rng.pick(&self.ts_choices),
            nonce: self.blocks.len() as u128 + 1,
        };
        let b = build_block(builder, &plan);
        *self.stats.entry("txs_committed".into()).or_default() += commit.len() as u64;
        if !uncles.is_empty() { *self.stats.entry("blocks_with_uncles".into()).or_default() += 1; }
        self.register_block(&b);
        self.pending.insert(b.hash(), keep);
        b
    }

    fn change_since(&self, before: &[u64], what: &'static str) -> Option<Change> {
        let after = self.main_chain();
        if after == before { return None; }
        let mut c = 0;
        while c < before.len() && c < after.len() && before[c] == after[c] { c += 1; }
        Some(Change { what, detached: before[c..].to_vec(), attached: after[c..].to_vec() })
    }

    /// extend the node's own tip by one block
    pub fn extend(&mut self, rng: &mut Rng, obs: &mut dyn FnMut(&Hist, &Change)) -> Result<(), String> {
        let before = self.main_chain();
        let node = self.node.take().unwrap();
        let b = self.build_next(rng, &node, true);
        self.node = Some(node);
        for u in b.uncles().into_iter() { self.used_uncles.insert(u.hash()); }
        self.jops.push(json!({"extend": {"block": self.block_id[&b.hash()], "height": b.number(), "txs": b.transactions().len() - 1, "uncles": b.uncles().into_iter().count()}}));
        note_history(&self.jops);
        self.node().process(&b).map_err(|e| format!("a block built from the node's own snapshot was rejected: {e}"))?;
        *self.stats.entry("blocks_extended".into()).or_default() += 1;
        if let Some(c) = self.change_since(&before, "extension") { obs(self, &c); }
        Ok(())
    }

    /// build a competing branch from main-chain height `from` and deliver it block by block
    pub fn fork(&mut self, rng: &mut Rng, from: u64, max_len: u64, obs: &mut dyn FnMut(&Hist, &Change)) -> Result<(), String> {
        let main = self.main_chain();
        let builder = Node::temp(&self.consensus);
        for id in main.iter().skip(1).take(from as usize) {
            // full verification: the fees recorded in BlockExt feed later rewards
            builder.process(&self.block_by_id(*id)).map_err(|e| format!("replay on builder: {e}"))?;
        }
        let old_above: Vec<BlockView> = main.iter().skip(from as usize + 1).map(|id| self.block_by_id(*id)).collect();
        let mut switched = false;
        for _ in 0..max_len {
            let b = self.build_next(rng, &builder, false);
            builder.process(&b).map_err(|e| format!("builder rejected its own block: {e}"))?;
            let before = self.main_chain();
            self.jops.push(json!({"fork_block": {"block": self.block_id[&b.hash()], "from_height": from, "height": b.number(), "txs": b.transactions().len() - 1}}));
            note_history(&self.jops);
            self.node().process(&b).map_err(|e| format!("a valid fork block was rejected: {e}"))?;
            if let Some(c) = self.change_since(&before, "reorganisation") {
                if !switched {
                    switched = true;
                    *self.stats.entry("reorgs".into()).or_default() += 1;
                    *self.stats.entry(format!("reorg_detached_{}", std::cmp::min(c.detached.len(), 12))).or_default() += 1;
                    if c.attached.len() < c.detached.len() { *self.stats.entry("reorgs_to_shorter_chain".into()).or_default() += 1; }
                }
                obs(self, &c);
            }
            if switched && rng.chance(1, 2) { break; }
        }
        builder.stop();
        if switched { self.stash.extend(old_above); }
        Ok(())
    }

    /// Extends a branch the node has left (its blocks were verified while they were on the main chain)
    /// until the node switches back to it: the attached part of that reorganisation starts with
    /// already-verified blocks.
    pub fn revive(&mut self, rng: &mut Rng, obs: &mut dyn FnMut(&Hist, &Change)) -> Result<(), String> {
        use ckb_store::ChainStore;
        let main: HashSet<u64> = self.main_chain().into_iter().collect();
        // abandoned, previously verified blocks without a known child
        let has_child: HashSet<Byte32> = self.blocks.iter().map(|b| b.parent_hash()).collect();
        let cands: Vec<BlockView> = self.blocks.iter().filter(|b| {
            !main.contains(&self.block_id[&b.hash()]) && !has_child.contains(&b.hash())
                && self.node().shared.store().get_block_ext(&b.hash()).map(|e| e.verified == Some(true)).unwrap_or(false)
        }).cloned().collect();
        if cands.is_empty() { return self.extend(rng, obs); }
        let tip = rng.pick(&cands).clone();
        // path from genesis to that block
        let mut path = vec![tip.clone()];
        loop {
            let p = path.last().unwrap().parent_hash();
            match self.block_id.get(&p) { Some(0) | None => break, Some(id) => path.push(self.block_by_id(*id)) }
        }
        path.reverse();
        let builder = Node::temp(&self.consensus);
        for b in &path { builder.process(b).map_err(|e| format!("replay of an abandoned branch on builder: {e}"))?; }
        let old_main: Vec<BlockView> = self.main_chain().iter().skip(1).map(|id| self.block_by_id(*id)).collect();
        let mut switched = false;
        for _ in 0..14 {
            let b = self.build_next(rng, &builder, false);
            builder.process(&b).map_err(|e| format!("builder rejected its own block: {e}"))?;
            let before = self.main_chain();
            self.jops.push(json!({"revive_block": {"block": self.block_id[&b.hash()], "on_abandoned_block": self.block_id[&tip.hash()], "height": b.number(), "txs": b.transactions().len() - 1}}));
            note_history(&self.jops);
            self.node().process(&b).map_err(|e| format!("a valid block on a revived branch was rejected: {e}"))?;
            if let Some(c) = self.change_since(&before, "reorganisation back to a branch that was verified before") {
                if !switched {
                    switched = true;
                    *self.stats.entry("reorgs_back_to_verified_branch".into()).or_default() += 1;
                }
                obs(self, &c);
            }
            if switched && rng.chance(1, 2) { break; }
        }
        builder.stop();
        if switched { let now: HashSet<Byte32> = self.main_chain().iter().map(|id| self.block_by_id(*id).hash()).collect(); self.stash.extend(old_main.into_iter().filter(|b| !now.contains(&b.hash()))); }
        Ok(())
    }

    pub fn restart(&mut self, obs: &mut dyn FnMut(&Hist, &Change)) {
        self.node_bound.borrow_mut().take();
        let node = self.node.take().unwrap();
        node.stop();
        self.node = Some(Node::on_disk(&self.consensus, &self.dir, self.with_freezer));
        self.jops.push(json!("restart"));
        note_history(&self.jops);
        *self.stats.entry("restarts".into()).or_default() += 1;
        obs(self, &Change { what: "restart", detached: vec![], attached: vec![] });
    }

    pub fn truncate(&mut self, to: u64, obs: &mut dyn FnMut(&Hist, &Change)) -> Result<(), String> {
        let before = self.main_chain();
        let target = self.node().shared.snapshot().get_block_hash(to).unwrap();
        self.jops.push(json!({"truncate_to": to}));
        note_history(&self.jops);
        self.node().chain().truncate(target).map_err(|e| format!("truncate failed: {e}"))?;
        *self.stats.entry("truncations".into()).or_default() += 1;
        if let Some(c) = self.change_since(&before, "truncation") { obs(self, &c); }
        Ok(())
    }

    /// one random step
    pub fn random_step(&mut self, rng: &mut Rng, obs: &mut dyn FnMut(&Hist, &Change)) -> Result<(), String> {
        let tip = self.node().tip().number();
        match rng.below(14) {
            12 | 13 if tip >= 2 => self.revive(rng, obs),
            0..=5 => {
                for _ in 0..rng.range(1, 4) { self.extend(rng, obs)?; }
                Ok(())
            }
            6..=8 if tip >= 1 => {
                let back = rng.range(1, 9);
                let from = if rng.chance(1, 6) { 0 } else { rng.range(tip.saturating_sub(back), tip - 1) };
                let extra = rng.range(1, 3);
                self.fork(rng, from, tip - from + extra, obs)
            }
            9 => { self.restart(obs); Ok(()) }
            10 if tip >= 2 => {
                let back = rng.range(1, 6);
                let to = rng.range(tip.saturating_sub(back), tip - 1);
                self.truncate(to, obs)
            }
            _ => self.extend(rng, obs),
        }
    }

    pub fn finish(mut self) {
        self.node_bound.borrow_mut().take();
        if let Some(n) = self.node.take() { n.stop(); }
        let _ = std::fs::remove_dir_all(&self.dir);
    }
}
