//! C07 correspondence harness: calls the real arithmetic of ckb-types
//! (compact target codec, EpochNumberWithFraction, EpochExt rewards),
//! ckb-rational (RationalU256), ckb-chain-spec (Consensus::next_epoch_ext,
//! primary_epoch_reward) and ckb-pow (Eaglesong engines) on generated inputs
//! with boundary values aimed at the code's comparisons, evaluates the property
//! predicate directly on the implementation's answers (written from the
//! property text with independent wide arithmetic), and writes the inputs with
//! the observed answers as Coq cases for the model (coq/Arith/*.v) to recompute.
use ckb_chain_spec::consensus::{Consensus, ConsensusBuilder};
use ckb_pow::{pow_message, EaglesongBlake2bPowEngine, EaglesongPowEngine, PowEngine};
use ckb_rational::RationalU256;
use ckb_traits::{BlockEpoch, EpochProvider};
use ckb_types::{
    core::{BlockExt, BlockNumber, Capacity, EpochExt, EpochNumberWithFraction, HeaderBuilder, HeaderView},
    packed::Byte32,
    utilities::{compact_to_difficulty, compact_to_target, difficulty_to_compact, target_to_compact},
    U256,
};
use hx_common::*;
use numext_fixed_uint::U1024;
use serde_json::{json, Value};
use std::collections::BTreeMap;
use std::fs;
use std::panic::{catch_unwind, AssertUnwindSafe};

// constants of the property text (RFC 0020 / consensus.rs); the predicate uses
// these literals on purpose, not the crate's constants
const P_TAU: u64 = 2;
const P_MIN_LEN: u64 = 300;
const P_MAX_LEN: u64 = 1800;
const INIT_REWARD: u64 = 1_917_808_21917808;
const SEC_REWARD: u64 = 613_698_63013698;
const HALVING: u64 = 8760;
const T_DEFAULT: u64 = 14400;

fn guard<T>(f: impl FnOnce() -> T) -> Option<T> {
    catch_unwind(AssertUnwindSafe(f)).ok()
}

// ---- numbers -----------------------------------------------------------------
fn u(x: u64) -> U256 {
    U256::from(x)
}
fn pow2(k: u32) -> U256 {
    if k >= 256 {
        U256::zero()
    } else {
        U256::one() << k
    }
}
/// random value with exactly `bits` significant bits (0 => zero)
fn rand_bits(r: &mut Rng, bits: u32) -> U256 {
    if bits == 0 {
        return U256::zero();
    }
    let mut b = [0u8; 32];
    for c in b.chunks_mut(8) {
        c.copy_from_slice(&r.next().to_le_bytes());
    }
    let v = U256::from_little_endian(&b).unwrap();
    let v = if bits >= 256 { v } else { v >> (256 - bits) };
    v | pow2(bits - 1)
}
fn rand_u256(r: &mut Rng) -> U256 {
    let bits = r.range(0, 256) as u32;
    rand_bits(r, bits)
}
fn rand_u64_shaped(r: &mut Rng) -> u64 {
    let bits = r.range(0, 64);
    if bits == 0 {
        0
    } else {
        (r.next() >> (64 - bits)) | (1u64 << (bits - 1))
    }
}
fn cn(x: &U256) -> String {
    format!("{}%N", x)
}
fn c64(x: u64) -> String {
    format!("{}%N", x)
}
fn ds(x: &U256) -> String {
    format!("{}", x)
}
fn pd(s: &Value) -> U256 {
    match s {
        Value::String(s) => U256::from_dec_str(s).unwrap(),
        v => U256::from(v.as_u64().unwrap()),
    }
}
fn big(x: &U256) -> U1024 {
    let mut b = [0u8; 128];
    let mut s = [0u8; 32];
    x.into_little_endian(&mut s).unwrap();
    b[..32].copy_from_slice(&s);
    U1024::from_little_endian(&b).unwrap()
}
fn big64(x: u64) -> U1024 {
    U1024::from(x)
}
fn bits_of(x: &U256) -> u32 {
    256 - x.leading_zeros()
}

struct Violation {
    what: String,
    detail: Value,
}
fn vio(v: &mut Vec<Violation>, what: &str, detail: Value) {
    if v.len() < 200 {
        v.push(Violation { what: what.to_string(), detail });
    }
}

// ---- rationals: observe through Display ("numer/denom") -----------------------
fn rat_obs(r: &RationalU256) -> (U256, U256) {
    let s = format!("{}", r);
    let mut it = s.split('/');
    let n = U256::from_dec_str(it.next().unwrap()).unwrap();
    let d = U256::from_dec_str(it.next().unwrap()).unwrap();
    (n, d)
}
fn rat_apply(op: u64, a: &(U256, U256), b: &(U256, U256)) -> Option<(U256, U256)> {
    let ra = RationalU256::new_raw(a.0.clone(), a.1.clone());
    let rb = RationalU256::new_raw(b.0.clone(), b.1.clone());
    guard(|| {
        let r = match op {
            0 => &ra * &rb,
            1 => &ra / &rb,
            2 => &ra + &rb,
            3 => &ra * &b.0,
            4 => &ra / &b.0,
            5 => &ra + &b.0,
            6 => ra.clone().saturating_sub_u256(b.0.clone()),
            _ => RationalU256::new(a.0.clone(), a.1.clone()),
        };
        rat_obs(&r)
    })
}

// ---- epoch ext ----------------------------------------------------------------
#[derive(Clone, Debug)]
struct Ee {
    number: u64,
    base: u64,
    rem: u64,
    prev_hr: U256,
    start: u64,
    length: u64,
    compact: u32,
}
impl Ee {
    fn build(&self) -> EpochExt {
        EpochExt::new_builder()
            .number(self.number)
            .base_block_reward(Capacity::shannons(self.base))
            .remainder_reward(Capacity::shannons(self.rem))
            .previous_epoch_hash_rate(self.prev_hr.clone())
            .last_block_hash_in_previous_epoch(Byte32::zero())
            .start_number(self.start)
            .length(self.length)
            .compact_target(self.compact)
            .build()
    }
    fn of(e: &EpochExt) -> Ee {
        Ee {
            number: e.number(),
            base: e.base_block_reward().as_u64(),
            rem: e.remainder_reward().as_u64(),
            prev_hr: e.previous_epoch_hash_rate().clone(),
            start: e.start_number(),
            length: e.length(),
            compact: e.compact_target(),
        }
    }
    fn coq(&self) -> String {
        format!(
            "(mkEpochExt {} {} {} {} {} {} {})",
            c64(self.number),
            c64(self.base),
            c64(self.rem),
            cn(&self.prev_hr),
            c64(self.start),
            c64(self.length),
            c64(self.compact as u64)
        )
    }
    fn json(&self) -> Value {
        json!({"number": self.number, "base": self.base, "rem": self.rem, "prev_hr": ds(&self.prev_hr),
               "start": self.start, "length": self.length, "compact": self.compact})
    }
    fn from_json(v: &Value) -> Ee {
        Ee {
            number: v["number"].as_u64().unwrap(),
            base: v["base"].as_u64().unwrap(),
            rem: v["rem"].as_u64().unwrap(),
            prev_hr: pd(&v["prev_hr"]),
            start: v["start"].as_u64().unwrap(),
            length: v["length"].as_u64().unwrap(),
            compact: v["compact"].as_u64().unwrap() as u32,
        }
    }
}

struct Mock {
    epoch: EpochExt,
    uncles: u64,
    dur: u64,
}
impl EpochProvider for Mock {
    fn get_epoch_ext(&self, _h: &HeaderView) -> Option<EpochExt> {
        Some(self.epoch.clone())
    }
    fn get_block_hash(&self, _n: BlockNumber) -> Option<Byte32> {
        None
    }
    fn get_block_ext(&self, _h: &Byte32) -> Option<BlockExt> {
        None
    }
    fn get_block_header(&self, _h: &Byte32) -> Option<HeaderView> {
        None
    }
    fn get_block_epoch(&self, _h: &HeaderView) -> Option<BlockEpoch> {
        Some(BlockEpoch::TailBlock {
            epoch: self.epoch.clone(),
            epoch_uncles_count: self.uncles,
            epoch_duration_in_milliseconds: self.dur,
        })
    }
}

#[derive(Clone, Debug)]
struct NextIn {
    t: u64,
    ort: (u32, u32),
    init: u64,
    halving: u64,
    e: Ee,
    hnum: u64,
    hcompact: u32,
    uncles: u64,
    dur: u64,
}
impl NextIn {
    fn json(&self) -> Value {
        json!({"group": "next", "T": self.t, "ort": [self.ort.0, self.ort.1], "init": self.init, "halving": self.halving,
               "epoch": self.e.json(), "header_number": self.hnum, "header_compact": self.hcompact,
               "uncles": self.uncles, "duration_ms": self.dur})
    }
    fn from_json(v: &Value) -> NextIn {
        NextIn {
            t: v["T"].as_u64().unwrap(),
            ort: (v["ort"][0].as_u64().unwrap() as u32, v["ort"][1].as_u64().unwrap() as u32),
            init: v["init"].as_u64().unwrap(),
            halving: v["halving"].as_u64().unwrap(),
            e: Ee::from_json(&v["epoch"]),
            hnum: v["header_number"].as_u64().unwrap(),
            hcompact: v["header_compact"].as_u64().unwrap() as u32,
            uncles: v["uncles"].as_u64().unwrap(),
            dur: v["duration_ms"].as_u64().unwrap(),
        }
    }
}

fn run_next(base: &Consensus, i: &NextIn) -> Option<Ee> {
    let mut c = base.clone();
    c.epoch_duration_target = i.t;
    c.orphan_rate_target = RationalU256::new_raw(U256::from(i.ort.0), U256::from(i.ort.1));
    c.initial_primary_epoch_reward = Capacity::shannons(i.init);
    c.primary_epoch_reward_halving_interval = i.halving;
    let header = HeaderBuilder::default().number(i.hnum).compact_target(i.hcompact).build();
    let mock = Mock { epoch: i.e.build(), uncles: i.uncles, dur: i.dur };
    guard(|| c.next_epoch_ext(&header, &mock).map(|n| Ee::of(&n.epoch()))).flatten()
}

/// the dev-chain configuration (dummy PoW with permanent difficulty): same inputs, the other branch of next_epoch_ext
fn run_next_permanent(base: &Consensus, i: &NextIn) -> Option<Ee> {
    let mut c = base.clone();
    c.epoch_duration_target = i.t;
    c.initial_primary_epoch_reward = Capacity::shannons(i.init);
    c.primary_epoch_reward_halving_interval = i.halving;
    c.permanent_difficulty_in_dummy = true;
    if !c.permanent_difficulty() { return None; }
    let header = HeaderBuilder::default().number(i.hnum).compact_target(i.hcompact).build();
    let mock = Mock { epoch: i.e.build(), uncles: i.uncles, dur: i.dur };
    guard(|| c.next_epoch_ext(&header, &mock).map(|n| Ee::of(&n.epoch()))).flatten()
}
/// with permanent difficulty the next epoch keeps target and hash rate, lasts ceil(T / 8) blocks, and its block rewards
/// still add up to the SCHEDULED primary issuance of its number (halvings included)
fn pred_next_permanent(i: &NextIn, out: &Option<Ee>, viol: &mut Vec<Violation>) {
    if !realistic(i) { return; }
    let d = i.json();
    let Some(o) = out else { vio(viol, "next_epoch_ext (permanent difficulty) gave no answer / panicked on in-range epoch statistics", d); return; };
    let l = i.e.length;
    let n1 = i.e.number + 1;
    let exp_len = (i.t + 7) / 8;
    let exp_reward = if n1 % i.halving != 0 { i.e.base * l + i.e.rem } else if n1 / i.halving < 64 { i.init >> (n1 / i.halving) } else { 0 };
    if o.length != exp_len || o.number != n1 || o.start != i.hnum + 1 || o.compact != i.e.compact || o.prev_hr != i.e.prev_hr {
        vio(viol, "permanent difficulty: next epoch number / start / length / target / hash rate wrong", json!({"case": d, "number": o.number, "start": o.start, "length": o.length, "compact": o.compact}));
    }
    if o.length > 0 && (o.base as u128 * o.length as u128 + o.rem as u128 != exp_reward as u128 || o.rem >= o.length) {
        vio(viol, "permanent difficulty: base*length+remainder of the next epoch is not the scheduled primary reward (halving on schedule)", json!({"case": d, "base": o.base, "rem": o.rem, "length": o.length, "scheduled": exp_reward}));
    }
}

/// inputs for which the property promises an answer (no panic): see the rule text
fn realistic(i: &NextIn) -> bool {
    let diff = compact_to_difficulty(i.hcompact);
    i.e.length >= P_MIN_LEN
        && i.e.length <= P_MAX_LEN
        && i.uncles <= 2 * i.e.length
        && i.dur < (1u64 << 48)
        && !diff.is_zero()
        && bits_of(&diff) <= 128
        && bits_of(&i.e.prev_hr) <= 128
        && i.t >= 1
        && i.t <= (1 << 20)
        && i.ort.0 >= 1
        && i.ort.0 < i.ort.1
        && i.ort.1 <= 65536
        && i.halving >= 1
        && i.e.number < (1 << 40)
        && i.hnum < (1 << 63)
        && (i.e.base as u128) * (i.e.length as u128) + (i.e.rem as u128) < (1u128 << 64)
}

/// the property predicate for one epoch transition, from the property text / RFC 0020
fn pred_next(i: &NextIn, out: &Option<Ee>, viol: &mut Vec<Violation>) {
    if !realistic(i) {
        return;
    }
    let d = i.json();
    let o = match out {
        None => {
            vio(viol, "next_epoch_ext panicked on in-range epoch statistics", d);
            return;
        }
        Some(o) => o,
    };
    let l = i.e.length;
    // epoch length
    if o.length < P_MIN_LEN || o.length > P_MAX_LEN {
        vio(viol, "next epoch length outside [MIN_EPOCH_LENGTH, MAX_EPOCH_LENGTH]", json!({"case": d, "next_length": o.length}));
    }
    if o.length > l * P_TAU || o.length < l / P_TAU {
        vio(viol, "next epoch length not within a factor of two of the previous length", json!({"case": d, "next_length": o.length}));
    }
    // hash rate estimate, clamped
    let diff = compact_to_difficulty(i.hcompact);
    let dsec = std::cmp::max(i.dur / 1000, 1);
    let hr_raw = (big(&diff) * big64(l + i.uncles)) / big64(dsec);
    let prev = big(&i.e.prev_hr);
    let mut hr = hr_raw.clone();
    if !prev.is_zero() {
        let lo = &prev / big64(P_TAU);
        let hi = &prev * big64(P_TAU);
        if hr < lo {
            hr = lo;
        }
        if hr > hi {
            hr = hi;
        }
    }
    if hr.is_zero() {
        hr = U1024::one();
    }
    if big(&o.prev_hr) != hr {
        vio(viol, "hash rate estimate is not the estimate clamped to a factor of two of the previous one",
            json!({"case": d, "got": ds(&o.prev_hr), "expected": format!("{}", hr)}));
    }
    // expected length from the RFC formula
    let (on, od) = (i.ort.0 as u64, i.ort.1 as u64);
    let t = i.t;
    let (exp_len, bound) = if i.uncles == 0 {
        (std::cmp::min(P_MAX_LEN, l * P_TAU), true)
    } else {
        let num = big64(on) * big64(l + i.uncles) * big64(t) * big64(l);
        let den = big64(i.uncles) * big64(on + od) * big64(dsec);
        let raw = num / den;
        let hi = big64(std::cmp::min(P_MAX_LEN, l * P_TAU));
        let lo = big64(std::cmp::max(P_MIN_LEN, l / P_TAU));
        if raw > hi {
            (hi.0[0], true)
        } else if raw < lo {
            (lo.0[0], true)
        } else {
            (raw.0[0], false)
        }
    };
    if exp_len != o.length {
        vio(viol, "next epoch length differs from the RFC formula", json!({"case": d, "got": o.length, "expected": exp_len}));
        return;
    }
    // difficulty = max 1 floor(HR' * T / ((1 + o) * L'))
    let lp = o.length;
    let (dn, dd) = if !bound {
        (big64(on + od) * big64(lp), big64(od))
    } else if i.uncles == 0 {
        (big64(lp), U1024::one())
    } else {
        let xn = big64(l + i.uncles) * big64(t) * big64(l);
        let xd = big64(i.uncles) * big64(dsec) * big64(lp);
        if xn > xd {
            (&xn * big64(lp), &xn - &xd)
        } else {
            (big64(on + od) * big64(lp), big64(od))
        }
    };
    let mut nd = (&hr * big64(t) * dd) / dn;
    if nd.is_zero() {
        nd = U1024::one();
    }
    let got_diff = compact_to_difficulty(o.compact);
    if got_diff.is_zero() {
        vio(viol, "next epoch difficulty is zero", json!({"case": d, "compact": o.compact}));
    }
    // compare through the compact encoding of the expected difficulty
    let mut nb = [0u8; 128];
    nd.into_little_endian(&mut nb).unwrap();
    if nb[32..].iter().any(|b| *b != 0) {
        vio(viol, "expected difficulty exceeds 256 bits in the in-range class", d.clone());
    } else {
        let nd256 = U256::from_little_endian(&nb[..32]).unwrap();
        let exp_c = difficulty_to_compact(nd256.clone());
        if exp_c != o.compact {
            vio(viol, "next epoch difficulty differs from the RFC formula",
                json!({"case": d, "got_compact": o.compact, "expected_difficulty": ds(&nd256), "expected_compact": exp_c}));
        }
    }
    // issuance of the next epoch
    let n1 = i.e.number + 1;
    let exp_reward = if n1 % i.halving != 0 { i.e.base * l + i.e.rem } else if n1 / i.halving < 64 { i.init >> (n1 / i.halving) } else { 0 };
    if o.length > 0 && (o.base as u128 * o.length as u128 + o.rem as u128 != exp_reward as u128 || o.rem >= o.length) {
        vio(viol, "base*length+remainder of the next epoch is not the scheduled primary reward", json!({"case": d, "base": o.base, "rem": o.rem}));
    }
    if o.number != n1 || o.start != i.hnum + 1 {
        vio(viol, "next epoch number / start number wrong", json!({"case": d, "number": o.number, "start": o.start}));
    }
}

fn ee_opt_coq(o: &Option<Ee>) -> String {
    coq_option(o, |e| e.coq())
}
fn next_coq(i: &NextIn, out: &Option<Ee>) -> String {
    format!(
        "mkNext {} ({}, {}) {} {} {} {} {} {} {} {}",
        c64(i.t),
        c64(i.ort.0 as u64),
        c64(i.ort.1 as u64),
        c64(i.init),
        c64(i.halving),
        i.e.coq(),
        c64(i.hnum),
        c64(i.hcompact as u64),
        c64(i.uncles),
        c64(i.dur),
        ee_opt_coq(out)
    )
}

// ---- compact codec --------------------------------------------------------------
fn canonical_compact(c: u32) -> bool {
    if c == 0 {
        return true;
    }
    let e = c >> 24;
    let m = c & 0x00ff_ffff;
    m >= 0x10000 && e >= 1 && e <= 32 && (e > 3 || m % (1u32 << (8 * (3 - e))) == 0)
}
fn pred_t2c(t: &U256, c: u32, viol: &mut Vec<Violation>) {
    let d = json!({"group": "t2c", "target": ds(t)});
    let (t2, of) = compact_to_target(c);
    if of {
        vio(viol, "target_to_compact produced an overflowing compact", d.clone());
    }
    if &t2 > t {
        vio(viol, "compact_to_target(target_to_compact t) > t", d.clone());
    }
    let e = (bits_of(t) + 7) / 8;
    if e > 3 {
        let sh = 8 * (e - 3);
        if (t >> sh) != (&t2 >> sh) || (&t2 & (pow2(sh) - U256::one())) != U256::zero() {
            vio(viol, "compact encoding does not keep the top 24 significant bits", d.clone());
        }
    } else if &t2 != t {
        vio(viol, "small target does not round-trip", d.clone());
    }
    if target_to_compact(t2) != c {
        vio(viol, "target_to_compact is not idempotent on its image", d.clone());
    }
    if !canonical_compact(c) {
        vio(viol, "target_to_compact produced a non-canonical compact", d);
    }
}
fn pred_c2t(c: u32, t: &U256, of: bool, diff: &Option<U256>, viol: &mut Vec<Violation>) {
    let d = json!({"group": "c2t", "compact": c});
    if canonical_compact(c) {
        if of || target_to_compact(t.clone()) != c {
            vio(viol, "canonical compact does not round-trip through compact_to_target/target_to_compact", d.clone());
        }
    }
    match diff {
        None => vio(viol, "compact_to_difficulty panicked", d),
        Some(x) => {
            if (t.is_zero() || of) != x.is_zero() {
                vio(viol, "compact_to_difficulty is zero iff target is zero or overflows: violated", d);
            }
        }
    }
}

// ---- pow ------------------------------------------------------------------------
fn pow_case(r: &mut Rng, blake: bool) -> (U256, u32, bool, Value) {
    let e = *r.pick(&[0x1du32, 0x1e, 0x1f, 0x20, 0x20, 0x20, 0x21, 0x21, 0x22, 0x03, 0x00]);
    let m = match r.below(4) {
        0 => 0x00ff_ffff,
        1 => 0x0000_0001 + r.below(0xff) as u32,
        2 => 0x0080_0000,
        _ => r.below(0x0100_0000) as u32,
    };
    let c = (e << 24) | m;
    let nonce = ((r.next() as u128) << 64) | r.next() as u128;
    let h = HeaderBuilder::default()
        .number(r.next())
        .timestamp(r.next())
        .compact_target(c)
        .nonce(nonce)
        .build();
    let header = h.data();
    let input = pow_message(&header.as_reader().calc_pow_hash(), nonce);
    let mut out = [0u8; 32];
    eaglesong::eaglesong(&input, &mut out);
    let out = if blake { ckb_hash::blake2b_256(out) } else { out };
    let hash = U256::from_big_endian(&out[..]).unwrap();
    let v = if blake { EaglesongBlake2bPowEngine.verify(&header) } else { EaglesongPowEngine.verify(&header) };
    (hash, c, v, json!({"group": "pow", "hash": ds(&U256::from_big_endian(&out[..]).unwrap()), "compact": c, "blake2b": blake, "verdict": v}))
}

fn cmp_coq(o: std::cmp::Ordering) -> &'static str {
    match o {
        std::cmp::Ordering::Less => "Lt",
        std::cmp::Ordering::Equal => "Eq",
        std::cmp::Ordering::Greater => "Gt",
    }
}

/// primary_epoch_reward on one input + the property predicate: initial / 2^(epoch / interval),
/// nothing from the 64th halving on, never a panic (for a non-zero interval)
fn halving_case(base: &Consensus, init: u64, interval: u64, n: u64) -> (Option<u64>, Option<Violation>) {
    let mut c = base.clone();
    c.initial_primary_epoch_reward = Capacity::shannons(init);
    c.primary_epoch_reward_halving_interval = interval;
    let r = guard(|| c.primary_epoch_reward(n).as_u64());
    let mut v = None;
    if interval > 0 {
        let h = n / interval;
        let expect = if h < 64 { init >> h } else { 0 };
        let d = json!({"group": "halving", "init": init, "interval": interval, "epoch": n, "halvings": h, "got": r, "expected": expect});
        match r {
            None => v = Some(Violation { what: "primary_epoch_reward panicked".into(), detail: d }),
            Some(x) if x != expect => v = Some(Violation { what: "primary epoch reward is not initial / 2^(epoch / interval)".into(), detail: d }),
            _ => {}
        }
    }
    (r, v)
}

// ---- replay -----------------------------------------------------------------------
fn replay(path: &str, base: &Consensus) -> ! {
    let v: Value = serde_json::from_str(&fs::read_to_string(path).unwrap()).unwrap();
    let (case, recorded) = if let Some(vs) = v.get("violations") {
        let d = &vs[0]["detail"];
        (if d.get("case").is_some() { d["case"].clone() } else { d.clone() }, None)
    } else {
        let c = v["cases"][0]["case"].clone();
        let rec = c.get("observed").cloned();
        (c, rec)
    };
    let mut viol = Vec::new();
    let group = case["group"].as_str().unwrap_or("?").to_string();
    let observed: Value = match group.as_str() {
        "next" => {
            let i = NextIn::from_json(&case);
            let out = run_next(base, &i);
            pred_next(&i, &out, &mut viol);
            json!(out.map(|e| e.json()))
        }
        "t2c" => {
            let t = pd(&case["target"]);
            let c = target_to_compact(t.clone());
            pred_t2c(&t, c, &mut viol);
            json!(c)
        }
        "c2t" => {
            let c = case["compact"].as_u64().unwrap() as u32;
            let (t, of) = compact_to_target(c);
            let diff = guard(|| compact_to_difficulty(c));
            pred_c2t(c, &t, of, &diff, &mut viol);
            json!({"target": ds(&t), "overflow": of, "difficulty": diff.map(|x| ds(&x))})
        }
        "halving" => {
            let (r, v) = halving_case(
                base,
                case["init"].as_u64().unwrap(),
                case["interval"].as_u64().unwrap(),
                case["epoch"].as_u64().unwrap(),
            );
            if let Some(v) = v {
                viol.push(v);
            }
            json!(r)
        }
        _ => {
            println!("replay of group {group} is not supported individually; re-run ./check C07 with the same seed");
            json!(null)
        }
    };
    println!("replayed {group} case {case}\nobserved now: {observed}");
    for x in &viol {
        println!("PROPERTY VIOLATED: {} :: {}", x.what, x.detail);
    }
    let still = !viol.is_empty() || recorded.map(|r| r == observed).unwrap_or(false);
    std::process::exit(if still { 1 } else { 0 })
}

fn main() {
    std::panic::set_hook(Box::new(|_| {}));
    let base = ConsensusBuilder::default().build();
    if let Ok(p) = std::env::var("HX_REPLAY") {
        replay(&p, &base);
    }
    let seed = seed();
    let thorough = tier_is_thorough();
    let k = if thorough { 6 } else { 1 };
    let out = out_dir("C07");
    for e in fs::read_dir(&out).unwrap().flatten() {
        let n = e.file_name().to_string_lossy().to_string();
        if n.starts_with("cases_") || n == "summary.json" {
            let _ = fs::remove_file(e.path());
        }
    }
    let mut rng = Rng::new(seed);
    let mut stats: BTreeMap<String, u64> = BTreeMap::new();
    let mut viol: Vec<Violation> = Vec::new();
    let mut samples: Vec<Value> = Vec::new();
    let mut evaluations = 0u64;
    let mut distinct = std::collections::BTreeSet::new();
    let extra: BTreeMap<String, Value> = BTreeMap::new();

    let shards = 16usize;
    let header = "From CKB Require Import Arith.DefaultParams.";
    let groups: Vec<(&str, &str, &str)> = vec![
        ("t2c", "N * N", "check_t2c"),
        ("c2t", "N * N * bool * option N", "check_c2t"),
        ("d2c", "N * option N", "check_d2c"),
        ("pow", "N * N * bool", "check_pow"),
        ("enf_new", "N * N * N * N", "check_enf_new"),
        ("enf_get", "N * (N * N * N) * bool * N", "check_enf_get"),
        ("enf_succ", "N * N * bool * comparison", "check_enf_succ"),
        ("ratop", "N * (N * N) * (N * N) * option (N * N)", "check_ratop"),
        ("ratcmp", "(N * N) * (N * N) * option comparison * option N", "check_ratcmp"),
        ("reward", "epoch_ext * N * N * option N * option N * option N * option N", "check_reward"),
        ("halving", "N * N * N * option N", "check_halving default_params"),
        ("next", "next_case", "check_next default_params"),
    ];
    let gi = |name: &str| groups.iter().position(|g| g.0 == name).unwrap();
    let mut files: Vec<CaseFile> = (0..shards)
        .map(|i| {
            let mut cf = CaseFile::new(&out, &format!("cases_{:02}", i), header);
            for (l, t, c) in &groups {
                cf.group(l, t, c);
            }
            cf
        })
        .collect();
    let mut descs: Vec<BTreeMap<String, Vec<Value>>> = (0..shards).map(|_| BTreeMap::new()).collect();
    let mut counter = 0usize;
    let mut push = |files: &mut Vec<CaseFile>, descs: &mut Vec<BTreeMap<String, Vec<Value>>>, g: &str, coq: String, d: Value| {
        let sh = counter % shards;
        counter += 1;
        files[sh].push(gi(g), coq);
        descs[sh].entry(g.to_string()).or_default().push(d);
    };
    macro_rules! count {
        ($k:expr) => {
            *stats.entry($k.to_string()).or_default() += 1
        };
    }

    // =========================== compact codec ==================================
    let mut targets: Vec<U256> = vec![U256::zero(), U256::one(), u(2), u(255), u(256), u(0xffff), u(0x10000), u(0xffffff), u(0x1000000), U256::max_value()];
    for b in 1..=256u32 {
        if b % 8 <= 1 || b % 8 == 7 || rng.chance(1, 4) {
            let p = pow2(b - 1);
            targets.push(p.clone());
            targets.push(&p - U256::one());
            targets.push(&p | U256::one());
            if b >= 25 {
                // mantissa boundaries: 0xffffff.., 0x800000.., one above a byte boundary
                targets.push(&(pow2(b - 1) - U256::one()) | &p);
                targets.push((u(0xffffff) << (b - 24)) | u(1));
                targets.push(u(0x800000) << (b - 24));
            }
        }
    }
    for _ in 0..1500 * k {
        targets.push(rand_u256(&mut rng));
    }
    let mut t2c_pairs: Vec<(U256, u32)> = Vec::new();
    for t in &targets {
        let c = target_to_compact(t.clone());
        pred_t2c(t, c, &mut viol);
        evaluations += 1;
        count!("t2c");
        distinct.insert(format!("t{}", t));
        t2c_pairs.push((t.clone(), c));
        push(&mut files, &mut descs, "t2c", format!("({}, {})", cn(t), c64(c as u64)), json!({"group": "t2c", "target": ds(t), "observed": c}));
    }
    // monotone: t1 <= t2 -> compact t1 <= compact t2 and decoded targets ordered
    t2c_pairs.sort();
    for w in t2c_pairs.windows(2) {
        if w[0].1 > w[1].1 || compact_to_target(w[0].1).0 > compact_to_target(w[1].1).0 {
            vio(&mut viol, "target_to_compact is not monotone", json!({"group": "t2c", "target": ds(&w[0].0), "target2": ds(&w[1].0)}));
        }
    }
    let mut compacts: Vec<u32> = vec![0, 1, 0x00ffffff, 0x01000000, 0x01010000, 0x0100ffff, 0x02008000, 0x03000001, 0x03ffffff, 0x04000001, 0x1d00ffff, 0x20800000, 0x207fffff, 0x20ffffff, 0x21000001, 0x210000ff, 0x21000100, 0x21010000, 0x22000001, 0x2200ffff, 0x23000001, 0xff000001, 0xffffffff, 0xff000000];
    for e in 0..=40u32 {
        for m in [0u32, 1, 0xff, 0x100, 0xffff, 0x10000, 0x7fffff, 0x800000, 0xffffff] {
            compacts.push((e << 24) | m);
        }
    }
    for _ in 0..1200 * k {
        compacts.push(rng.next() as u32);
        compacts.push(((rng.range(0, 36) as u32) << 24) | (rng.below(0x1000000) as u32));
        // canonical ones
        let e = rng.range(1, 32) as u32;
        let m = rng.range(0x10000, 0xffffff) as u32;
        let m = if e <= 3 { m & !((1u32 << (8 * (3 - e))) - 1) } else { m };
        compacts.push((e << 24) | m);
    }
    let mut canon_seen = 0u64;
    for &c in &compacts {
        let (t, of) = compact_to_target(c);
        let diff = guard(|| compact_to_difficulty(c));
        pred_c2t(c, &t, of, &diff, &mut viol);
        if canonical_compact(c) {
            canon_seen += 1;
        }
        evaluations += 1;
        count!("c2t");
        distinct.insert(format!("c{}", c));
        push(&mut files, &mut descs, "c2t",
            format!("({}, {}, {}, {})", c64(c as u64), cn(&t), coq_bool(of), coq_option(&diff, cn)),
            json!({"group": "c2t", "compact": c, "observed": {"target": ds(&t), "overflow": of, "difficulty": diff.as_ref().map(ds)}}));
    }
    stats.insert("c2t_canonical".into(), canon_seen);
    // compact_to_target monotone on canonical compacts
    let mut canon: Vec<u32> = compacts.iter().cloned().filter(|c| canonical_compact(*c)).collect();
    canon.sort();
    for w in canon.windows(2) {
        if compact_to_target(w[0]).0 > compact_to_target(w[1]).0 {
            vio(&mut viol, "compact_to_target is not monotone on canonical compacts", json!({"group": "c2t", "compact": w[0], "compact2": w[1]}));
        }
    }
    let mut diffs: Vec<U256> = vec![U256::zero(), U256::one(), u(2), u(3), U256::max_value(), pow2(255), pow2(128), pow2(128) - U256::one()];
    for _ in 0..700 * k {
        diffs.push(rand_u256(&mut rng));
        let b = rng.range(1, 256) as u32;
        diffs.push(pow2(b - 1) + u(rng.below(3)));
    }
    let mut d2c_pairs: Vec<(U256, U256)> = Vec::new();
    for dv in &diffs {
        let c = guard(|| difficulty_to_compact(dv.clone()));
        evaluations += 1;
        count!("d2c");
        if let Some(c) = c {
            let (t, of) = compact_to_target(c);
            let back = compact_to_difficulty(c);
            if of || t.is_zero() || back.is_zero() || &back < dv {
                vio(&mut viol, "difficulty -> compact -> difficulty lost work or became zero", json!({"group": "d2c", "difficulty": ds(dv)}));
            }
            d2c_pairs.push((dv.clone(), t));
        } else if !dv.is_zero() {
            vio(&mut viol, "difficulty_to_compact panicked on a non-zero difficulty", json!({"group": "d2c", "difficulty": ds(dv)}));
        }
        push(&mut files, &mut descs, "d2c", format!("({}, {})", cn(dv), coq_option(&c, |x| c64(*x as u64))),
            json!({"group": "d2c", "difficulty": ds(dv), "observed": c}));
    }
    d2c_pairs.sort();
    for w in d2c_pairs.windows(2) {
        if w[0].1 < w[1].1 {
            vio(&mut viol, "difficulty -> target is not antitone", json!({"group": "d2c", "difficulty": ds(&w[0].0), "difficulty2": ds(&w[1].0)}));
        }
    }

    // =========================== proof of work ====================================
    let mut accepted = 0u64;
    for j in 0..1600 * k {
        let (hash, c, v, d) = pow_case(&mut rng, j % 2 == 1);
        let (t, of) = compact_to_target(c);
        let expect = !t.is_zero() && !of && hash <= t;
        if expect != v {
            vio(&mut viol, "PoW verdict differs from (target valid and hash <= target)", d.clone());
        }
        if v {
            accepted += 1;
        }
        evaluations += 1;
        count!("pow");
        push(&mut files, &mut descs, "pow", format!("({}, {}, {})", cn(&hash), c64(c as u64), coq_bool(v)), d);
    }
    stats.insert("pow_accepted".into(), accepted);

    // =========================== EpochNumberWithFraction ===========================
    for _ in 0..700 * k {
        let (n, i, l) = match rng.below(4) {
            0 => (rng.below(1 << 24), rng.below(1 << 16), rng.below(1 << 16)),
            1 => (*rng.pick(&[0u64, 1, (1 << 24) - 1, 1 << 24, (1 << 24) + 5]), *rng.pick(&[0u64, 1, 65535, 65536, 65537]), *rng.pick(&[0u64, 1, 65535, 65536, 1 << 23, 1 << 24])),
            2 => (rand_u64_shaped(&mut rng), rand_u64_shaped(&mut rng), rand_u64_shaped(&mut rng)),
            _ => (rng.below(1 << 24), rng.below(1800), rng.range(1, 1800)),
        };
        let v = EpochNumberWithFraction::new_unchecked(n, i, l).full_value();
        if n < (1 << 24) && i < (1 << 16) && l < (1 << 16) {
            let e = EpochNumberWithFraction::from_full_value_unchecked(v);
            if e.number() != n || e.index() != i || e.length() != l {
                vio(&mut viol, "EpochNumberWithFraction fields do not round-trip", json!({"group": "enf_new", "number": n, "index": i, "length": l}));
            }
        }
        evaluations += 1;
        count!("enf_new");
        push(&mut files, &mut descs, "enf_new", format!("({}, {}, {}, {})", c64(n), c64(i), c64(l), c64(v)), json!({"group": "enf_new", "number": n, "index": i, "length": l, "observed": v}));
    }
    for _ in 0..700 * k {
        let v = match rng.below(3) {
            0 => rng.next(),
            1 => rand_u64_shaped(&mut rng),
            _ => EpochNumberWithFraction::new_unchecked(rng.below(1 << 24), rng.below(4), rng.below(4)).full_value(),
        };
        let e = EpochNumberWithFraction::from_full_value_unchecked(v);
        let nz = e.normalize().full_value();
        if e.is_well_formed() != (e.length() > 0 && e.index() < e.length()) {
            vio(&mut viol, "is_well_formed differs from (length > 0 and index < length)", json!({"group": "enf_get", "value": v}));
        }
        evaluations += 1;
        count!("enf_get");
        push(&mut files, &mut descs, "enf_get",
            format!("({}, ({}, {}, {}), {}, {})", c64(v), c64(e.number()), c64(e.index()), c64(e.length()), coq_bool(e.is_well_formed()), c64(nz)),
            json!({"group": "enf_get", "value": v, "observed": [e.number(), e.index(), e.length(), e.is_well_formed(), nz]}));
    }
    // chains of consecutive blocks across epochs: every step must be a successor,
    // and nothing but the next position may be accepted as successor
    let mut succ_true = 0u64;
    for _ in 0..60 * k {
        let mut number = rng.below((1 << 24) - 40);
        let mut length = *rng.pick(&[1u64, 2, 3, 300, 1000, 1800, 65535]);
        let mut index = if length > 4 { length - rng.range(1, 4) } else { 0 };
        let mut prev = EpochNumberWithFraction::new(number, index, length);
        for _ in 0..12 {
            // the true next position
            let (nn, ni, nl) = if index + 1 == length {
                (number + 1, 0, *rng.pick(&[1u64, 2, 300, 1234, 1800]))
            } else {
                (number, index + 1, length)
            };
            let next = EpochNumberWithFraction::new(nn, ni, nl);
            let mut cands = vec![(next, true)];
            // wrong candidates: a gap, a repeat, a wrong length, a skipped epoch
            cands.push((EpochNumberWithFraction::new_unchecked(nn, ni + 1, nl), false));
            cands.push((prev, false));
            cands.push((EpochNumberWithFraction::new_unchecked(nn + 1, ni, nl), false));
            if index + 1 != length {
                cands.push((EpochNumberWithFraction::new_unchecked(nn, ni, nl + 1), false));
                cands.push((EpochNumberWithFraction::new_unchecked(number + 1, 0, nl), false));
            } else if nn > 0 {
                cands.push((EpochNumberWithFraction::new_unchecked(number, index + 1, length), false));
            }
            for (s, want) in cands {
                let got = s.is_successor_of(prev);
                let wf = s.is_well_formed();
                // the verifier accepts iff well formed and successor
                if (got && wf) != want {
                    vio(&mut viol, "epoch field accepted/rejected wrongly as the successor position",
                        json!({"group": "enf_succ", "self": s.full_value(), "pred": prev.full_value(), "is_successor_of": got, "well_formed": wf, "expected_accept": want}));
                }
                if got {
                    succ_true += 1;
                }
                evaluations += 1;
                count!("enf_succ");
                push(&mut files, &mut descs, "enf_succ",
                    format!("({}, {}, {}, {})", c64(s.full_value()), c64(prev.full_value()), coq_bool(got), cmp_coq(s.cmp(&prev))),
                    json!({"group": "enf_succ", "self": s.full_value(), "pred": prev.full_value(), "observed": got}));
            }
            prev = next;
            number = nn;
            index = ni;
            length = nl;
        }
    }
    for _ in 0..300 * k {
        let a = EpochNumberWithFraction::from_full_value_unchecked(rng.next() >> rng.below(30));
        let b = if rng.chance(1, 2) { EpochNumberWithFraction::from_full_value_unchecked(rng.next() >> rng.below(30)) } else {
            EpochNumberWithFraction::new_unchecked(a.number(), a.index().wrapping_sub(rng.below(3)).wrapping_add(1) & 0xffff, a.length())
        };
        let got = a.is_successor_of(b);
        evaluations += 1;
        count!("enf_succ");
        push(&mut files, &mut descs, "enf_succ",
            format!("({}, {}, {}, {})", c64(a.full_value()), c64(b.full_value()), coq_bool(got), cmp_coq(a.cmp(&b))),
            json!({"group": "enf_succ", "self": a.full_value(), "pred": b.full_value(), "observed": got}));
    }
    stats.insert("enf_succ_true".into(), succ_true);

    // =========================== RationalU256 =========================================
    for _ in 0..1200 * k {
        let small = rng.chance(1, 2);
        let gen = |r: &mut Rng| -> U256 {
            if small {
                u(*r.pick(&[0u64, 1, 2, 3, 6, 40, 41, 1000, 1800, 14400]))
            } else if r.chance(1, 6) {
                { let b = r.range(200, 256) as u32; rand_bits(r, b) }
            } else {
                { let b = r.range(0, 130) as u32; rand_bits(r, b) }
            }
        };
        let a = (gen(&mut rng), gen(&mut rng));
        let b = (gen(&mut rng), gen(&mut rng));
        let op = rng.below(8);
        let res = rat_apply(op, &a, &b);
        // exactness (property text: the formula is evaluated exactly): cross products
        if let Some((rn, rd)) = &res {
            if !a.1.is_zero() && !b.1.is_zero() && !rd.is_zero() {
                let (xn, xd) = match op {
                    0 => (big(&a.0) * big(&b.0), big(&a.1) * big(&b.1)),
                    1 => (big(&a.0) * big(&b.1), big(&a.1) * big(&b.0)),
                    2 => (big(&a.0) * big(&b.1) + big(&b.0) * big(&a.1), big(&a.1) * big(&b.1)),
                    3 => (big(&a.0) * big(&b.0), big(&a.1)),
                    4 => (big(&a.0), big(&a.1) * big(&b.0)),
                    5 => (big(&a.0) + big(&a.1) * big(&b.0), big(&a.1)),
                    6 => {
                        let p = big(&a.1) * big(&b.0);
                        (if big(&a.0) > p { big(&a.0) - p } else { U1024::zero() }, big(&a.1))
                    }
                    _ => (big(&a.0), big(&a.1)),
                };
                if big(rn) * xd != xn * big(rd) {
                    vio(&mut viol, "RationalU256 operation is not exact", json!({"group": "ratop", "op": op, "a": [ds(&a.0), ds(&a.1)], "b": [ds(&b.0), ds(&b.1)]}));
                }
            }
        }
        evaluations += 1;
        count!("ratop");
        count!(format!("ratop_{}", if res.is_some() { "some" } else { "panic" }));
        push(&mut files, &mut descs, "ratop",
            format!("({}, ({}, {}), ({}, {}), {})", c64(op), cn(&a.0), cn(&a.1), cn(&b.0), cn(&b.1),
                coq_option(&res, |(n, d)| format!("({}, {})", cn(n), cn(d)))),
            json!({"group": "ratop", "op": op, "a": [ds(&a.0), ds(&a.1)], "b": [ds(&b.0), ds(&b.1)], "observed": res.as_ref().map(|(n, d)| vec![ds(n), ds(d)])}));
        // cmp / into_u256
        let ra = RationalU256::new_raw(a.0.clone(), a.1.clone());
        let rb = RationalU256::new_raw(b.0.clone(), b.1.clone());
        let o = guard(|| ra.cmp(&rb));
        let f = guard(|| ra.clone().into_u256());
        if let Some(o) = o {
            if !a.1.is_zero() && !b.1.is_zero() && (big(&a.0) * big(&b.1)).cmp(&(big(&b.0) * big(&a.1))) != o {
                vio(&mut viol, "RationalU256::cmp is not the order of the rationals", json!({"group": "ratcmp", "a": [ds(&a.0), ds(&a.1)], "b": [ds(&b.0), ds(&b.1)]}));
            }
        }
        evaluations += 1;
        count!("ratcmp");
        push(&mut files, &mut descs, "ratcmp",
            format!("(({}, {}), ({}, {}), {}, {})", cn(&a.0), cn(&a.1), cn(&b.0), cn(&b.1),
                coq_option(&o, |o| cmp_coq(*o).to_string()), coq_option(&f, cn)),
            json!({"group": "ratcmp", "a": [ds(&a.0), ds(&a.1)], "b": [ds(&b.0), ds(&b.1)]}));
    }

    // =========================== rewards inside an epoch ==============================
    let mut epochs_summed = 0u64;
    for j in 0..120 * k {
        let length = match j % 6 {
            0 => *rng.pick(&[1u64, 2, 3, 7, P_MIN_LEN, P_MAX_LEN, 1000]),
            _ => rng.range(P_MIN_LEN, P_MAX_LEN),
        };
        let reward = match j % 5 {
            0 => INIT_REWARD >> rng.below(40),
            1 => rng.below(length * 3),
            2 => length * rng.range(1, 1 << 30),
            _ => rng.below(1 << 50),
        };
        let sec = match j % 3 {
            0 => SEC_REWARD,
            1 => rng.below(length * 2 + 1),
            _ => rng.below(1 << 50),
        };
        let start = if j % 7 == 0 { 0 } else { rng.below(1 << 40) };
        let e = Ee { number: rng.below(1 << 20), base: reward / length, rem: reward % length, prev_hr: u(1), start, length, compact: 0x20800000 };
        let ext = e.build();
        let (mut s1, mut s2) = (0u128, 0u128);
        let mut ok = true;
        for b in start..start + length {
            match (ext.block_reward(b), ext.secondary_block_issuance(b, Capacity::shannons(sec))) {
                (Ok(x), Ok(y)) => {
                    s1 += x.as_u64() as u128;
                    s2 += y.as_u64() as u128;
                }
                _ => ok = false,
            }
        }
        epochs_summed += 1;
        if !ok || s1 != reward as u128 || s2 != sec as u128 {
            vio(&mut viol, "block rewards / secondary issuance over an epoch do not sum to the epoch totals",
                json!({"group": "reward", "epoch": e.json(), "sec": sec, "block": start, "sum_primary": s1.to_string(), "sum_secondary": s2.to_string(), "reward": reward}));
        }
        if reward % length != 0 {
            count!("reward_remainder_nonzero");
        }
        let blocks = [start.wrapping_sub(1), start, start + e.rem.saturating_sub(1), start + e.rem, start + (sec % length), start + length - 1, start + length, rng.next()];
        for b in blocks {
            let br = guard(|| ext.block_reward(b).ok().map(|c| c.as_u64())).flatten();
            let si = guard(|| ext.secondary_block_issuance(b, Capacity::shannons(sec)).ok().map(|c| c.as_u64())).flatten();
            let nf = guard(|| ext.number_with_fraction(b).full_value());
            let pr = guard(|| ext.primary_reward().as_u64());
            evaluations += 1;
            count!("reward");
            push(&mut files, &mut descs, "reward",
                format!("({}, {}, {}, {}, {}, {}, {})", e.coq(), c64(b), c64(sec), coq_option(&br, |x| c64(*x)), coq_option(&si, |x| c64(*x)), coq_option(&nf, |x| c64(*x)), coq_option(&pr, |x| c64(*x))),
                json!({"group": "reward", "epoch": e.json(), "sec": sec, "block": b, "observed": [br, si, nf, pr]}));
        }
    }
    // degenerate epochs (overflow corners, zero length): model comparison only
    for _ in 0..150 * k {
        let e = Ee {
            number: rng.below(1 << 24),
            base: *rng.pick(&[0u64, 1, u64::MAX - 1, u64::MAX, 1 << 40]),
            rem: *rng.pick(&[0u64, 1, 5, u64::MAX, 1 << 63]),
            prev_hr: u(0),
            start: *rng.pick(&[0u64, 1, u64::MAX - 3, u64::MAX, 1 << 63]),
            length: *rng.pick(&[0u64, 1, 2, 1000, u64::MAX]),
            compact: 0,
        };
        let ext = e.build();
        let sec = *rng.pick(&[0u64, 1, 7, u64::MAX, SEC_REWARD]);
        let b = *rng.pick(&[0u64, 1, 2, u64::MAX - 3, u64::MAX - 2, u64::MAX, (1 << 63) + 1]);
        let br = guard(|| ext.block_reward(b).ok().map(|c| c.as_u64())).flatten();
        let si = guard(|| ext.secondary_block_issuance(b, Capacity::shannons(sec)).ok().map(|c| c.as_u64())).flatten();
        let nf = guard(|| ext.number_with_fraction(b).full_value());
        let pr = guard(|| ext.primary_reward().as_u64());
        evaluations += 1;
        count!("reward_degenerate");
        push(&mut files, &mut descs, "reward",
            format!("({}, {}, {}, {}, {}, {}, {})", e.coq(), c64(b), c64(sec), coq_option(&br, |x| c64(*x)), coq_option(&si, |x| c64(*x)), coq_option(&nf, |x| c64(*x)), coq_option(&pr, |x| c64(*x))),
            json!({"group": "reward", "epoch": e.json(), "sec": sec, "block": b, "observed": [br, si, nf, pr]}));
    }
    stats.insert("reward_epochs_summed".into(), epochs_summed);

    // =========================== halving schedule =====================================
    for j in 0..400 * k {
        let interval = match j % 4 {
            0 => HALVING,
            1 => *rng.pick(&[1u64, 2, 3, 10, 0]),
            _ => rng.range(1, 20000),
        };
        let init = if j % 3 == 0 { INIT_REWARD } else { rng.next() >> rng.below(40) };
        let kk = match rng.below(4) {
            0 => *rng.pick(&[62u64, 63, 64, 65, 66, 127, 128]),
            _ => rng.below(70),
        };
        let n = match j % 7 {
            0 => kk.saturating_mul(interval),
            1 => kk.saturating_mul(interval).saturating_sub(1),
            2 => kk.saturating_mul(interval).saturating_add(1),
            3 => rng.below(1 << 24),
            4 => rng.below(interval.max(1).saturating_mul(66)),
            // more halvings than fit a u32 / a u64 epoch number at its end
            5 => *rng.pick(&[(1u64 << 32) - 1, 1 << 32, (1 << 32) + 1, u64::MAX, u64::MAX - 1, 1 << 63]),
            _ => interval.saturating_mul(*rng.pick(&[(1u64 << 32) - 1, 1 << 32, 1 << 33])),
        };
        let (r, v) = halving_case(&base, init, interval, n);
        if let Some(v) = v {
            viol.push(v);
        }
        if interval > 0 && n / interval >= 64 {
            count!("halving_64_or_more");
        }
        evaluations += 1;
        count!("halving");
        push(&mut files, &mut descs, "halving", format!("({}, {}, {}, {})", c64(init), c64(interval), c64(n), coq_option(&r, |x| c64(*x))),
            json!({"group": "halving", "init": init, "interval": interval, "epoch": n, "observed": r}));
    }

    // =========================== next_epoch_ext ========================================
    let lens_in = [P_MIN_LEN, P_MIN_LEN + 1, 599, 600, 601, 899, 900, 901, 1000, P_MAX_LEN - 1, P_MAX_LEN];
    let lens_out = [1u64, 2, 149, 150, 299, 1801, 3599, 3600, 3601, 65535];
    let n_next = 5200 * k;
    let mut next_some = 0u64;
    let mut next_realistic = 0u64;
    for j in 0..n_next {
        let inrange = j % 8 != 7;
        let l = if inrange {
            if rng.chance(1, 2) { *rng.pick(&lens_in) } else { rng.range(P_MIN_LEN, P_MAX_LEN) }
        } else if rng.chance(1, 8) { *rng.pick(&[0u64, u64::MAX, 1 << 63]) } else { *rng.pick(&lens_out) };
        let t = match rng.below(6) {
            0 => *rng.pick(&[1u64, 10, 100, 3600, 28800, 1 << 20]),
            _ => T_DEFAULT,
        };
        let ort = match rng.below(6) {
            0 => *rng.pick(&[(1u32, 20u32), (1, 2), (3, 100), (1, 65536), (7, 200)]),
            _ => (1, 40),
        };
        let uncles = match rng.below(10) {
            0 | 1 => 0,
            2 => 1,
            3 => l / 40,
            4 => (l / 40).saturating_add(1),
            5 => l,
            6 => l.saturating_mul(2),
            7 => rng.below(l.saturating_mul(2).saturating_add(1)),
            8 => rng.below(l / 10 + 1),
            _ => if inrange { rng.range(1, 90) } else { rand_u64_shaped(&mut rng) },
        };
        // header difficulty
        let hcompact: u32 = match rng.below(10) {
            0 => 0x20800000,
            1 => if inrange { 0x1a08a97b } else { *rng.pick(&[0u32, 0x21000001, 0x01010000, 0x03000001, 0x00ffffff]) },
            _ => {
                let e = rng.range(if inrange { 0x11 } else { 0x02 }, 0x20) as u32;
                (e << 24) | rng.range(0x10000, 0xffffff) as u32
            }
        };
        let diff = compact_to_difficulty(hcompact);
        // duration: plain choices, or aimed at a length clamp
        let mut dur = match rng.below(12) {
            0 => 0,
            1 => 1,
            2 => 999,
            3 => 1000,
            4 => 1001,
            5 => t.saturating_mul(1000),
            6 => t.saturating_mul(1000).saturating_sub(1),
            7 => t.saturating_mul(500),
            8 => t.saturating_mul(2000) + rng.below(2000),
            9 => if inrange { rng.below(1 << 40) } else { rng.next() },
            _ => t.saturating_mul(rng.range(300, 3000)),
        };
        if uncles > 0 && l > 0 && l < 100000 && rng.chance(1, 2) {
            // raw = ort_n (L+U) T L / (U (ort_n+ort_d) D); choose D so raw lands on a clamp bound
            let goal = *rng.pick(&[std::cmp::min(P_MAX_LEN, l * 2), std::cmp::max(P_MIN_LEN, l / 2), P_MIN_LEN, P_MAX_LEN, l]);
            let num = (ort.0 as u128) * ((l + uncles) as u128) * (t as u128) * (l as u128);
            let den = (uncles as u128) * ((ort.0 + ort.1) as u128) * (goal.max(1) as u128);
            let dsec = (num / den.max(1)) as u64;
            let dsec = dsec.saturating_add(rng.below(3)).saturating_sub(1);
            dur = dsec.saturating_mul(1000).saturating_add(rng.below(1000));
            count!("next_duration_aimed_at_length_clamp");
        }
        // previous hash rate aimed at the clamp of the estimate
        let dsec = std::cmp::max(dur / 1000, 1);
        let hr: Option<U256> = guard(|| &diff * (l.saturating_add(uncles)) / u(dsec));
        let prev_hr = match (rng.below(14), &hr) {
            (0, _) => U256::zero(),
            (1, Some(h)) => h.clone(),
            (2, Some(h)) => guard(|| h * 2u64).unwrap_or_default(),
            (3, Some(h)) => guard(|| h * 2u64 + 1u64).unwrap_or_default(),
            (4, Some(h)) => guard(|| h * 2u64 + 2u64).unwrap_or_default(),
            (5, Some(h)) => guard(|| h * 2u64 + 3u64).unwrap_or_default(),
            (6, Some(h)) => guard(|| h * 2u64 - 1u64).unwrap_or_default(),
            (7, Some(h)) => h / 2u64,
            (8, Some(h)) => h / 2u64 + 1u64,
            (9, Some(h)) => guard(|| h / 2u64 - 1u64).unwrap_or_default(),
            (10, Some(h)) => guard(|| h * 3u64).unwrap_or_default(),
            (11, Some(h)) => h / 5u64,
            (12, _) => if inrange { u(1) } else { U256::max_value() >> (rng.below(3) as u32) },
            _ => { let b = rng.range(0, if inrange { 128 } else { 256 }) as u32; rand_bits(&mut rng, b) }
        };
        let halving = if rng.chance(1, 5) { *rng.pick(&[1u64, 2, 10, 100, 0]) } else { HALVING };
        let number = match rng.below(8) {
            0 => halving.saturating_sub(2),
            1 => halving.saturating_sub(1),
            2 => halving.saturating_mul(rng.below(66)).saturating_sub(1),
            3 => halving.saturating_mul(rng.below(66)),
            4 => if inrange { rng.below(1 << 24) } else { *rng.pick(&[u64::MAX, u64::MAX - 1, 1 << 40]) },
            _ => rng.below(20000),
        };
        let init = if rng.chance(3, 4) { INIT_REWARD } else { rng.next() >> rng.range(8, 40) };
        let reward = if inrange { if number / halving.max(1) < 64 { init >> (number / halving.max(1)) } else { 0 } } else { rng.next() >> rng.below(20) };
        let (b, rm) = if l > 0 { (reward / l, reward % l) } else { (reward, 0) };
        let start = if rng.chance(1, 6) { 0 } else { rng.below(1 << 40) };
        let hnum = if inrange || rng.chance(1, 2) { start + l.min(1 << 20) - if l > 0 { 1 } else { 0 } } else { *rng.pick(&[u64::MAX, u64::MAX - 1]) };
        let i = NextIn {
            t, ort, init, halving,
            e: Ee { number, base: b, rem: rm, prev_hr, start, length: l, compact: hcompact },
            hnum, hcompact, uncles, dur,
        };
        let outp = run_next(&base, &i);
        pred_next(&i, &outp, &mut viol);
        {
            let op = run_next_permanent(&base, &i);
            pred_next_permanent(&i, &op, &mut viol);
            if op.is_some() { count!("next_permanent_difficulty_answers"); if (i.e.number + 1) % i.halving.max(1) == 0 { count!("next_permanent_difficulty_at_halving"); } }
        }
        if realistic(&i) {
            next_realistic += 1;
        }
        if outp.is_some() {
            next_some += 1;
            if let Some(o) = &outp {
                if o.rem != 0 {
                    count!("next_remainder_nonzero");
                }
                if uncles > 0 {
                    let raw_bound = o.length == std::cmp::min(P_MAX_LEN, l.saturating_mul(2)) || o.length == std::cmp::max(P_MIN_LEN, l / 2);
                    if raw_bound { count!("next_length_at_clamp"); } else { count!("next_length_unclamped"); }
                }
                if !i.e.prev_hr.is_zero() {
                    if o.prev_hr == &i.e.prev_hr / 2u64 { count!("next_hash_rate_at_lower_clamp"); }
                    if guard(|| &i.e.prev_hr * 2u64).map(|x| x == o.prev_hr).unwrap_or(false) { count!("next_hash_rate_at_upper_clamp"); }
                }
            }
        }
        if uncles == 0 { count!("next_zero_uncles"); }
        if dur < 2000 { count!("next_duration_le_1s"); }
        evaluations += 1;
        count!("next");
        distinct.insert(format!("n{:?}", i));
        let mut d = i.json();
        d["observed"] = json!(outp.as_ref().map(|e| e.json()));
        if samples.len() < 3 && realistic(&i) && uncles > 0 {
            samples.push(d.clone());
        }
        push(&mut files, &mut descs, "next", next_coq(&i, &outp), d);
    }
    stats.insert("next_answered".into(), next_some);
    stats.insert("next_panicked".into(), n_next as u64 - next_some);
    stats.insert("next_in_promised_class".into(), next_realistic);

    // ---- the statistics next_epoch_ext is fed with: EpochProvider::get_block_epoch (the default method every
    //      store-backed provider uses) on an in-memory chain of one epoch, against the sums over its blocks
    {
        struct ChainMock { epoch: EpochExt, hashes: Vec<Byte32>, headers: std::collections::HashMap<Byte32, HeaderView>, exts: std::collections::HashMap<Byte32, BlockExt> }
        impl EpochProvider for ChainMock {
            fn get_epoch_ext(&self, _h: &HeaderView) -> Option<EpochExt> { Some(self.epoch.clone()) }
            fn get_block_hash(&self, n: BlockNumber) -> Option<Byte32> { self.hashes.get(n as usize).cloned() }
            fn get_block_ext(&self, h: &Byte32) -> Option<BlockExt> { self.exts.get(h).cloned() }
            fn get_block_header(&self, h: &Byte32) -> Option<HeaderView> { self.headers.get(h).cloned() }
        }
        let n_prov = 300 * k;
        for pi in 0..n_prov {
            // heights 0 ..= start + length - 1; epoch [start, start + length); genesis epoch when start = 0
            let genesis_epoch = rng.chance(1, 5);
            let start = if genesis_epoch { 0 } else { rng.range(1, 6) };
            let length = rng.range(1, 9);
            let last = start + length - 1;
            let mut hashes = vec![];
            let mut headers = std::collections::HashMap::new();
            let mut exts = std::collections::HashMap::new();
            let (mut total_uncles, mut ts) = (rng.below(5), 1_000_000u64);
            let mut per_block = vec![];
            for n in 0..=last {
                // uncles in every block, the tail block included
                let u = if n == 0 { 0 } else if rng.chance(1, 2) { rng.below(3) } else { 0 };
                if n > 0 { total_uncles += u; ts += rng.range(1, 20_000); }
                per_block.push((u, ts));
                let h = HeaderBuilder::default().number(n).timestamp(ts).nonce((pi as u128) << 32 | n as u128).build();
                hashes.push(h.hash());
                exts.insert(h.hash(), BlockExt { received_at: 0, total_difficulty: U256::zero(), total_uncles_count: total_uncles, verified: Some(true), txs_fees: vec![], cycles: None, txs_sizes: None });
                headers.insert(h.hash(), h);
            }
            let prev = if start == 0 { 0 } else { start - 1 };
            let epoch = EpochExt::new_builder().number(if genesis_epoch { 0 } else { 3 }).start_number(start).length(length)
                .last_block_hash_in_previous_epoch(hashes[prev as usize].clone()).compact_target(0x2001_0000).build();
            let mock = ChainMock { epoch, hashes: hashes.clone(), headers, exts };
            evaluations += 1;
            *stats.entry("provider_epochs".into()).or_default() += 1;
            for n in start.max(1)..=last {
                let hv = mock.get_block_header(&hashes[n as usize]).unwrap();
                let got = guard(|| mock.get_block_epoch(&hv)).flatten();
                let first = if start == 0 { 1 } else { start };
                let want_u: u64 = (first..=last).map(|m| per_block[m as usize].0).sum();
                let want_d = per_block[last as usize].1 - per_block[prev as usize].1;
                let ok = match (&got, n == last) {
                    (Some(BlockEpoch::TailBlock { epoch_uncles_count, epoch_duration_in_milliseconds, .. }), true) => *epoch_uncles_count == want_u && *epoch_duration_in_milliseconds == want_d,
                    (Some(BlockEpoch::NonTailBlock { .. }), false) => true,
                    _ => false,
                };
                if !ok {
                    let shown = match &got { Some(BlockEpoch::TailBlock { epoch_uncles_count, epoch_duration_in_milliseconds, .. }) => format!("tail: {epoch_uncles_count} uncles, {epoch_duration_in_milliseconds} ms"), Some(BlockEpoch::NonTailBlock { .. }) => "non-tail".into(), None => "none / panic".into() };
                    vio(&mut viol, "EpochProvider::get_block_epoch does not give the finished epoch's statistics (uncles of all its blocks, the tail block included; duration from the last block of the previous epoch)",
                        json!({"group": "provider", "epoch_start": start, "length": length, "asked_at": n, "uncles_per_block_and_timestamps": per_block, "answer": shown, "expected_tail": [want_u, want_d]}));
                    break;
                }
            }
        }
    }

    for (i, cf) in files.iter().enumerate() {
        cf.write().unwrap();
        fs::write(out.join(format!("cases_{:02}.json", i)), serde_json::to_string(&descs[i]).unwrap()).unwrap();
    }
    let summary = json!({
        "property": "C07",
        "seed": seed,
        "evaluations": evaluations,
        "distinct_nontrivial": distinct.len(),
        "rule": "one evaluation = one call of the real function on a generated input (target/compact/difficulty codec, PoW verdict with the hash recomputed by eaglesong, EpochNumberWithFraction packing/successor along generated block chains, RationalU256 operations, per-block reward of every block of an epoch, halving schedule, Consensus::next_epoch_ext through a mock EpochProvider); distinct = distinct targets + compacts + next_epoch_ext inputs; the promised class of next_epoch_ext inputs (no panic allowed, all bounds and the RFC formula checked with 1024-bit arithmetic) is MIN<=L<=MAX, uncles<=2L, duration<2^48 ms, difficulty and previous hash rate below 2^128; primary_epoch_reward must answer initial >> halvings (0 from 64 halvings on) for every u64 epoch number and non-zero interval, a panic is a violation",
        "distribution": stats,
        "samples": samples,
        "impl_violations": viol.iter().map(|v| json!({"what": v.what, "detail": v.detail})).collect::<Vec<_>>(),
        "extra_coverage": extra,
    });
    fs::write(out.join("summary.json"), serde_json::to_string_pretty(&summary).unwrap()).unwrap();
    println!("hx-arith: {} evaluations, {} implementation-side violations", evaluations, viol.len());
}
