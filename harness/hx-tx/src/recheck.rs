//! "The verdict depends only on the transaction and the chain context, never on how the node arrived at
//! that context": a transaction resolved against context A and re-validated against a later context B
//! with ResolvedTransaction::check (what the tx-pool does in check_rtx_from_pool when the tip moved
//! between pre_check and submit_entry, and what the block assembler does for every packaged
//! transaction) must get the verdict a fresh resolve_transaction in B gives.  Run twice: in a process in
//! which the SYSTEM_CELL map is not set (every unit test) and after setup_system_cell_cache has run
//! (every real node) — the map is a process-wide OnceLock, so this stream runs last.
//! The property predicate is evaluated on the implementation's answers; every evaluation is also written
//! as a Coq case (group "recheck": the transaction, the two contexts restricted to the out points
//! involved, the SYSTEM_CELL entries, what check and the fresh resolution answered) that the model
//! coq/Tx/Recheck.v recomputes.  A smaller model-only stream consumes cells the SYSTEM_CELL map names
//! (outside the property: system cells cannot be spent) to pin down which out points check skips.
use crate::resolve::{cells_coq, classify_err, classify_ok, err_coq, op_coq, rtx_coq, tx_coq, Data, Ids, Op, St, TxSpec, RR};
use crate::{Sink, G_RECHECK};
use ckb_types::{
    bytes::Bytes,
    core::{
        cell::{resolve_transaction, setup_system_cell_cache, CellChecker, CellMetaBuilder, CellProvider, CellStatus, HeaderChecker, ResolvedDep, SYSTEM_CELL},
        error::OutPointError,
        BlockBuilder, BlockView, Capacity, DepType, TransactionBuilder, TransactionView,
    },
    packed::{Byte32, CellDep, CellInput, CellOutput, OutPoint, OutPointVec},
    prelude::*,
};
use hx_common::*;
use serde_json::json;
use std::collections::{BTreeMap, BTreeSet, HashMap, HashSet};

#[derive(Clone)]
struct Prov {
    cells: HashMap<OutPoint, (CellOutput, Bytes)>,
    dead: HashSet<OutPoint>,
}
impl CellProvider for Prov {
    fn cell(&self, op: &OutPoint, _eager: bool) -> CellStatus {
        if self.dead.contains(op) { return CellStatus::Dead; }
        match self.cells.get(op) {
            Some((o, d)) => CellStatus::live_cell(CellMetaBuilder::from_cell_output(o.clone(), d.clone()).out_point(op.clone()).build()),
            None => CellStatus::Unknown,
        }
    }
}
impl CellChecker for Prov {
    fn is_live(&self, op: &OutPoint) -> Option<bool> {
        if self.dead.contains(op) { Some(false) } else if self.cells.contains_key(op) { Some(true) } else { None }
    }
}
struct AnyHeader;
impl HeaderChecker for AnyHeader {
    fn check_valid(&self, _h: &Byte32) -> Result<(), OutPointError> { Ok(()) }
}

fn output() -> CellOutput { CellOutput::new_builder().capacity(Capacity::shannons(100_000_000_000)).build() }
fn group_data(ops: &[OutPoint]) -> Bytes { OutPointVec::new_builder().set(ops.to_vec()).build().as_bytes() }
fn op(tag: u8, i: u32) -> OutPoint { OutPoint::new(Byte32::new([tag; 32]), i) }

struct World {
    genesis: BlockView,
    prov: Prov,
    sys_code: Vec<OutPoint>,
    sys_groups: Vec<OutPoint>,
    plain: Vec<OutPoint>,
    user_groups: Vec<(OutPoint, Vec<OutPoint>)>,
    inputs: Vec<OutPoint>,
    /// numbering of the transaction hashes for the Coq cases
    ids: Ids,
    /// every out point of the genesis-shaped block
    sys_all: Vec<OutPoint>,
}

fn world() -> World {
    // a genesis with the layout setup_system_cell_cache expects
    let tx0 = TransactionBuilder::default()
        .input(CellInput::new_cellbase_input(0))
        .outputs((0..6).map(|_| output()))
        .outputs_data((0..6u8).map(|i| Bytes::from(vec![i; 3 + i as usize]).pack()))
        .build();
    let sys = |i: u32| OutPoint::new(tx0.hash(), i);
    let tx1 = TransactionBuilder::default()
        .input(CellInput::new(OutPoint::new(Byte32::zero(), 7), 0))
        .outputs((0..2).map(|_| output()))
        .outputs_data(vec![group_data(&[sys(1), sys(3)]).pack(), group_data(&[sys(4), sys(3)]).pack()])
        .build();
    let genesis: BlockView = BlockBuilder::default().transaction(tx0.clone()).transaction(tx1.clone()).build();
    let mut prov = Prov { cells: HashMap::new(), dead: HashSet::new() };
    for tx in [&tx0, &tx1] {
        for (i, (o, d)) in tx.outputs_with_data_iter().enumerate() { prov.cells.insert(OutPoint::new(tx.hash(), i as u32), (o, d)); }
    }
    let plain: Vec<OutPoint> = (0..24).map(|i| op(0x11, i)).collect();
    for p in &plain { prov.cells.insert(p.clone(), (output(), Bytes::from(vec![7u8; 2]))); }
    let mut user_groups = vec![];
    for (gi, members) in [vec![0usize], vec![1, 2], vec![3, 4, 5], vec![2, 6], vec![7, 8, 9, 10]].into_iter().enumerate() {
        let g = op(0x22, gi as u32);
        let ms: Vec<OutPoint> = members.iter().map(|m| plain[*m].clone()).collect();
        prov.cells.insert(g.clone(), (output(), group_data(&ms)));
        user_groups.push((g, ms));
    }
    let inputs: Vec<OutPoint> = (0..6).map(|i| op(0x66, i)).collect();
    for i in &inputs { prov.cells.insert(i.clone(), (output(), Bytes::new())); }
    let mut ids = Ids::new();
    ids.add(90, tx0.hash());
    ids.add(91, tx1.hash());
    for tag in [0x11u8, 0x22, 0x66] { ids.add(tag as u64, Byte32::new([tag; 32])); }
    let sys_all: Vec<OutPoint> = (0..6).map(sys).chain((0..2).map(|i| OutPoint::new(tx1.hash(), i))).collect();
    World { genesis, prov, sys_code: vec![sys(1), sys(2), sys(3)], sys_groups: vec![OutPoint::new(tx1.hash(), 0), OutPoint::new(tx1.hash(), 1)], plain, user_groups, inputs, ids, sys_all }
}

// ---- what the implementation answered, and the same as a Coq case -------------------------------
struct Obs {
    rtx_a: RR,
    re: Result<(), OutPointError>,
    re_seen: Vec<Op>,
    fresh: Result<(), OutPointError>,
    fresh_ok: Option<(RR, Vec<Op>)>,
}

/// resolve in A (= the world's provider, nothing seen), then check and a fresh resolution in B
fn observe(w: &World, tx: &TransactionView, b: &Prov, seen_b: &HashSet<OutPoint>) -> Result<Obs, String> {
    let hc = AnyHeader;
    let sorted = |s: &HashSet<OutPoint>| { let mut v: Vec<Op> = s.iter().map(|o| w.ids.un(o)).collect(); v.sort(); v };
    let mut seen = HashSet::new();
    let rtx = match resolve_transaction(tx.clone(), &mut seen, &w.prov, &hc) { Ok(r) => r, Err(e) => return Err(format!("context A does not resolve: {e:?}")) };
    let mut s1 = seen_b.clone();
    let re = rtx.check(&mut s1, b, &hc);
    let mut s2 = seen_b.clone();
    let fresh = resolve_transaction(tx.clone(), &mut s2, b, &hc);
    Ok(Obs {
        rtx_a: classify_ok(&rtx, &w.ids),
        re,
        re_seen: sorted(&s1),
        fresh_ok: fresh.as_ref().ok().map(|r| (classify_ok(r, &w.ids), sorted(&s2))),
        fresh: fresh.map(|_| ()),
    })
}

/// what parse_dep_group_data would see in a cell's data
fn data_class(w: &World, data: &Bytes) -> Data {
    match OutPointVec::from_slice(data) {
        Ok(v) if !data.is_empty() => Data::Group(v.into_iter().map(|o| w.ids.un(&o)).collect()),
        _ => Data::Raw(1),
    }
}
fn restrict(w: &World, p: &Prov, involved: &BTreeSet<Op>) -> BTreeMap<Op, St> {
    let mut m = BTreeMap::new();
    for o in involved {
        let op = w.ids.op(o);
        if p.dead.contains(&op) { m.insert(*o, St::Dead); } else if let Some((_, d)) = p.cells.get(&op) { m.insert(*o, St::Live(data_class(w, d))); }
    }
    m
}
/// the entries of the process-wide map, None when it is not set
fn sys_coq(w: &World) -> String {
    match SYSTEM_CELL.get() {
        None => "None".into(),
        Some(map) => {
            let mut codes: Vec<Op> = vec![];
            let mut groups: Vec<(Op, Vec<Op>)> = vec![];
            for (dep, r) in map.iter() {
                let key = w.ids.un(&dep.out_point());
                match r {
                    ResolvedDep::Cell(_) if dep.dep_type() == DepType::Code.into() => codes.push(key),
                    ResolvedDep::Group(_, ms) if dep.dep_type() == DepType::DepGroup.into() => groups.push((key, ms.iter().map(|m| w.ids.un(&m.out_point)).collect())),
                    // an entry whose kind does not fit its key is never produced by setup_system_cell_cache;
                    // written under an impossible key so that the model would disagree
                    _ => codes.push((u64::MAX, 0)),
                }
            }
            codes.sort();
            groups.sort();
            format!("(Some (mkSys {} {}))", coq_list(&codes, op_coq), coq_list(&groups, |(g, ms)| format!("({}, {})", op_coq(g), coq_list(ms, op_coq))))
        }
    }
}
fn emit_case(w: &World, sink: &mut Sink, tx: &TransactionView, b: &Prov, seen_b: &HashSet<OutPoint>, also: &[OutPoint], obs: &Obs, desc: serde_json::Value) {
    let spec = TxSpec {
        inputs: tx.input_pts_iter().map(|o| w.ids.un(&o)).collect(),
        deps: tx.cell_deps_iter().map(|d| (w.ids.un(&d.out_point()), d.dep_type() == DepType::DepGroup.into())).collect(),
        hdeps: vec![], nwit: tx.witnesses().len(), outs: vec![], salt: 0,
    };
    // the out points involved: inputs, cell deps, the members their data lists, what was consumed
    let mut involved: BTreeSet<Op> = spec.inputs.iter().cloned().chain(spec.deps.iter().map(|d| d.0)).collect();
    for (o, _) in &spec.deps {
        if let Some((_, d)) = w.prov.cells.get(&w.ids.op(o)) { if let Data::Group(ms) = data_class(w, d) { involved.extend(ms); } }
    }
    involved.extend(also.iter().chain(seen_b.iter()).map(|o| w.ids.un(o)));
    let (a, bb, c) = match &obs.rtx_a { RR::Ok(a, b, c) => (a, b, c), _ => unreachable!() };
    let seen_b_ops = { let mut v: Vec<Op> = seen_b.iter().map(|o| w.ids.un(o)).collect(); v.sort(); v };
    let check_coq = match &obs.re { Ok(()) => format!("(Some (Ok {}))", coq_list(&obs.re_seen, op_coq)), Err(e) => format!("(Some (Err {}))", err_coq(&classify_err(e, &w.ids))) };
    let fresh_coq = match (&obs.fresh, &obs.fresh_ok) {
        (Ok(()), Some((RR::Ok(x, y, z), s))) => format!("(Some (Ok ({}, {})))", rtx_coq(x, y, z), coq_list(s, op_coq)),
        (Err(e), _) => format!("(Some (Err {}))", err_coq(&classify_err(e, &w.ids))),
        _ => unreachable!(),
    };
    // context B as the difference to A (B never has a live cell A does not have)
    let (cells_a, cells_b) = (restrict(w, &w.prov, &involved), restrict(w, b, &involved));
    let changed: Vec<(Op, &str)> = involved.iter().filter(|o| cells_a.get(o) != cells_b.get(o))
        .map(|o| (*o, match cells_b.get(o) { Some(St::Dead) => "Dead", None => "Unknown", Some(St::Live(_)) => unreachable!("a cell changed its content") })).collect();
    let coq = format!("mkRecheckCase {} {} [] {} {} {} {} {} {}", sys_coq(w), tx_coq(&spec), cells_coq(&cells_a),
                      coq_list(&seen_b_ops, op_coq), coq_list(&changed, |(o, s)| format!("({}, {})", op_coq(o), s)), rtx_coq(a, bb, c), check_coq, fresh_coq);
    let mut d = desc;
    d["tx"] = json!({"inputs": spec.inputs, "cell_deps": spec.deps.iter().map(|(o, g)| json!({"out_point": o, "dep_group": g})).collect::<Vec<_>>()});
    d["observed_check"] = json!(format!("{:?}", obs.re));
    d["observed_fresh"] = json!(format!("{:?}", obs.fresh));
    sink.case(G_RECHECK, coq, d);
}

fn gen_tx(w: &World, rng: &mut Rng) -> (TransactionView, Vec<OutPoint>) {
    let mut deps: Vec<CellDep> = vec![];
    let mut touched: Vec<OutPoint> = vec![]; // every out point the transaction depends on (candidates to consume)
    let code = |o: &OutPoint| CellDep::new_builder().out_point(o.clone()).dep_type(DepType::Code).build();
    let group = |o: &OutPoint| CellDep::new_builder().out_point(o.clone()).dep_type(DepType::DepGroup).build();
    for s in &w.sys_code { if rng.chance(1, 3) { deps.push(code(s)); } }
    for s in &w.sys_groups { if rng.chance(1, 3) { deps.push(group(s)); } }
    for _ in 0..rng.below(3) { let p = rng.pick(&w.plain[12..]).clone(); deps.push(code(&p)); touched.push(p); }
    for _ in 0..rng.range(0, 2) {
        let (g, ms) = rng.pick(&w.user_groups).clone();
        deps.push(group(&g));
        touched.push(g);
        touched.extend(ms);
    }
    for i in (1..deps.len()).rev() { let j = rng.below(i as u64 + 1) as usize; deps.swap(i, j); }
    let n_in = rng.range(1, 2) as usize;
    let mut ins = vec![];
    while ins.len() < n_in { let i = rng.pick(&w.inputs).clone(); if !ins.contains(&i) { ins.push(i); } }
    touched.extend(ins.iter().cloned());
    let tx = TransactionBuilder::default()
        .inputs(ins.iter().map(|i| CellInput::new(i.clone(), 0)))
        .output(output()).output_data(Bytes::new().pack())
        .cell_deps(deps)
        .build();
    (tx, touched)
}

pub fn stream_recheck(seed: u64, n: u64, sink: &mut Sink) {
    let w = world();
    // the same cases in both phases
    let mut cases = vec![];
    let mut rng = crate::stream_rng(seed, "recheck");
    for ci in 0..n {
        let (tx, touched) = gen_tx(&w, &mut rng);
        // context B: 0..2 of the cells the transaction depends on are consumed (or, rarely, something unrelated)
        let mut kill: Vec<OutPoint> = vec![];
        for _ in 0..rng.below(3) {
            if !touched.is_empty() && !rng.chance(1, 8) { kill.push(rng.pick(&touched).clone()); } else { kill.push(rng.pick(&w.plain[..12]).clone()); }
        }
        let unknown = rng.chance(1, 10); // consumed long ago: not even known as dead
        // consumed by an earlier transaction of the same block / pool pass: still live in the provider, in seen_inputs
        let in_seen = !unknown && rng.chance(1, 6);
        cases.push((ci, tx, kill, unknown, in_seen));
    }
    for phase in ["SYSTEM_CELL unset", "SYSTEM_CELL set"] {
        if phase == "SYSTEM_CELL set" && setup_system_cell_cache(&w.genesis, &w.prov).is_err() {
            sink.violation("SYSTEM_CELL was already set in this process; the re-check stream needs to set it itself", json!({"stream": "recheck"}), None);
            return;
        }
        for (ci, tx, kill, unknown, in_seen) in &cases {
            if !sink.wanted("recheck", *ci) { continue; }
            sink.evaluations += 1;
            *sink.stats.entry(format!("recheck_cases ({phase})")).or_default() += 1;
            let desc = json!({"stream": "recheck", "index": ci, "seed": seed, "phase": phase, "cell_deps": tx.cell_deps().len(), "inputs": tx.inputs().len(),
                              "consumed_in_between": kill.iter().map(|k| format!("{k}")).collect::<Vec<_>>(), "consumed_cells_unknown": unknown, "consumed_cells_in_seen_inputs": in_seen});
            let mut b = w.prov.clone();
            let mut seen_b: HashSet<OutPoint> = HashSet::new();
            for k in kill { if *in_seen { seen_b.insert(k.clone()); } else if *unknown { b.cells.remove(k); } else { b.dead.insert(k.clone()); } }
            let obs = crate::guarded(std::panic::AssertUnwindSafe(|| observe(&w, tx, &b, &seen_b)));
            let r = obs.as_ref().map(|o| match o {
                Err(what) => Some(what.clone()),
                Ok(Obs { re, fresh, .. }) => {
                    if re.is_ok() != fresh.is_ok() {
                        return Some(format!("re-validation of the transaction resolved earlier answers {:?}, a fresh resolution in the same context answers {:?}", re, fresh));
                    }
                    if let Err(e) = &re {
                        // the out point blamed must be one that is really gone
                        let blamed = match e { OutPointError::Dead(o) | OutPointError::Unknown(o) => Some(o.clone()), _ => None };
                        if let Some(o) = blamed { if !kill.contains(&o) { return Some(format!("re-validation blames {o}, which is live in that context")); } }
                    }
                    None
                }
            });
            match r {
                None => sink.violation("panic in resolve_transaction / ResolvedTransaction::check", desc.clone(), None),
                Some(Some(what)) if what.starts_with("context A") => sink.violation(&format!("generator defect: {what}"), desc.clone(), None),
                Some(Some(what)) => {
                    *sink.stats.entry("recheck_differences".into()).or_default() += 1;
                    sink.violation(&what, desc.clone(), None)
                }
                Some(None) => {}
            }
            // (thorough tier: the predicate runs on every case, the first 2400 are also written for the model)
            if let Some(Ok(o)) = &obs { if *ci < 2400 { emit_case(&w, sink, tx, &b, &seen_b, kill, o, desc.clone()); } }
            if sink.samples.len() < 8 && *ci == 0 && phase == "SYSTEM_CELL set" { sink.samples.push(desc); }
        }
    }
    stream_system_cell_consumed(seed, &w, &cases.iter().map(|c| c.1.clone()).collect::<Vec<_>>(), sink);
}

/// Model only (no predicate: on a real chain the cells SYSTEM_CELL names cannot be spent, the property
/// does not speak about such contexts): one cell the map names is consumed in B.  check, the cached fresh
/// resolution and the model must still answer alike case by case — this is what ties the model's choice
/// of skipped out points (cached code cells, cached groups, members of the cached groups the
/// transaction names) to the code.  Runs with SYSTEM_CELL set.
fn stream_system_cell_consumed(seed: u64, w: &World, txs: &[TransactionView], sink: &mut Sink) {
    let mut rng = crate::stream_rng(seed, "recheck-sys");
    let code = |o: &OutPoint| CellDep::new_builder().out_point(o.clone()).dep_type(DepType::Code).build();
    let group = |o: &OutPoint| CellDep::new_builder().out_point(o.clone()).dep_type(DepType::DepGroup).build();
    let mk = |deps: Vec<CellDep>| TransactionBuilder::default().input(CellInput::new(w.inputs[0].clone(), 0)).output(output()).output_data(Bytes::new().pack()).cell_deps(deps).build();
    let s = &w.sys_all; // s[0..6] = outputs of the first genesis transaction, s[6], s[7] = the two groups
    // directed: (transaction, consumed cell)
    let mut list: Vec<(TransactionView, OutPoint)> = vec![
        (mk(vec![code(&s[1])]), s[1].clone()),                                   // cached code cell
        (mk(vec![group(&s[7]), code(&s[4])]), s[4].clone()),                     // member of a cached group, also a plain code dep
        (mk(vec![code(&s[4]), group(&s[7])]), s[4].clone()),
        (mk(vec![code(&s[4])]), s[4].clone()),                                   // the same cell without the group: not skipped
        (mk(vec![group(&s[6])]), s[6].clone()),                                  // cached group cell
        (mk(vec![group(&s[6]), group(&w.user_groups[1].0)]), s[3].clone()),      // member of a cached group
        (mk(vec![group(&s[6]), code(&s[4])]), s[4].clone()),                     // member of a cached group the transaction does not name
        (mk(vec![code(&s[6])]), s[6].clone()),                                   // a cached group cell used as a code dep: key differs
        (mk(vec![group(&s[7]), code(&s[5])]), s[5].clone()),                     // uncached system cell
    ];
    for (k, tx) in txs.iter().enumerate() { if k % 12 == 0 { list.push((tx.clone(), rng.pick(s).clone())); } }
    for (k, (tx, gone)) in list.iter().enumerate() {
        if !sink.wanted("recheck-sys", k as u64) { continue; }
        for mode in ["dead", "unknown", "in seen_inputs"] {
            let mut b = w.prov.clone();
            let mut seen_b: HashSet<OutPoint> = HashSet::new();
            match mode { "dead" => { b.dead.insert(gone.clone()); } "unknown" => { b.cells.remove(gone); } _ => { seen_b.insert(gone.clone()); } }
            sink.evaluations += 1;
            sink.count("recheck_system_cell_consumed (model only)");
            let desc = json!({"stream": "recheck-sys", "index": k, "seed": seed, "phase": "SYSTEM_CELL set", "system_cell_consumed": format!("{gone}"), "how": mode});
            match crate::guarded(std::panic::AssertUnwindSafe(|| observe(w, tx, &b, &seen_b))) {
                None => sink.violation("panic in resolve_transaction / ResolvedTransaction::check", desc, None),
                Some(Err(what)) => sink.violation(&format!("generator defect: {what}"), desc, None),
                Some(Ok(o)) => {
                    if o.re.is_ok() != o.fresh.is_ok() { sink.count("recheck_system_cell_consumed: check and fresh resolution differ (outside the hypothesis)"); }
                    emit_case(w, sink, tx, &b, &seen_b, &[gone.clone()], &o, desc);
                }
            }
        }
    }
}
