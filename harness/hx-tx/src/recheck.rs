//! "The verdict depends only on the transaction and the chain context, never on how the node arrived at
//! that context": a transaction resolved against context A and re-validated against a later context B
//! with ResolvedTransaction::check (what the tx-pool does in check_rtx_from_pool when the tip moved
//! between pre_check and submit_entry, and what the block assembler does for every packaged
//! transaction) must get the verdict a fresh resolve_transaction in B gives.  Run twice: in a process in
//! which the SYSTEM_CELL map is not set (every unit test) and after setup_system_cell_cache has run
//! (every real node) — the map is a process-wide OnceLock, so this stream runs last.
//! Property predicate only.
use crate::Sink;
use ckb_types::{
    bytes::Bytes,
    core::{
        cell::{resolve_transaction, setup_system_cell_cache, CellChecker, CellMetaBuilder, CellProvider, CellStatus, HeaderChecker},
        error::OutPointError,
        BlockBuilder, BlockView, Capacity, DepType, TransactionBuilder, TransactionView,
    },
    packed::{Byte32, CellDep, CellInput, CellOutput, OutPoint, OutPointVec},
    prelude::*,
};
use hx_common::*;
use serde_json::json;
use std::collections::{HashMap, HashSet};

#[derive(Clone)]
struct Prov {
    cells: HashMap<OutPoint, (CellOutput, Bytes)>,
    dead: HashSet<OutPoint>,
}
impl CellProvider for Prov {
    fn cell(&self, op: &OutPoint, _eager: bool) -> CellStatus {
        if self.dead.contains(op) { return CellStatus::Dead; }
        match self.cells.get(op) {
            Some((o, d)) => CellStatus::live_cell(CellMetaBuilder::from_cell_output(o.clone(), d.clone()).out_point(op.clone()).build()),
            None => CellStatus::Unknown,
        }
    }
}
impl CellChecker for Prov {
    fn is_live(&self, op: &OutPoint) -> Option<bool> {
        if self.dead.contains(op) { Some(false) } else if self.cells.contains_key(op) { Some(true) } else { None }
    }
}
struct AnyHeader;
impl HeaderChecker for AnyHeader {
    fn check_valid(&self, _h: &Byte32) -> Result<(), OutPointError> { Ok(()) }
}

fn output() -> CellOutput { CellOutput::new_builder().capacity(Capacity::shannons(100_000_000_000)).build() }
fn group_data(ops: &[OutPoint]) -> Bytes { OutPointVec::new_builder().set(ops.to_vec()).build().as_bytes() }
fn op(tag: u8, i: u32) -> OutPoint { OutPoint::new(Byte32::new([tag; 32]), i) }

struct World {
    genesis: BlockView,
    prov: Prov,
    sys_code: Vec<OutPoint>,
    sys_groups: Vec<OutPoint>,
    plain: Vec<OutPoint>,
    user_groups: Vec<(OutPoint, Vec<OutPoint>)>,
    inputs: Vec<OutPoint>,
}

fn world() -> World {
    // a genesis with the layout setup_system_cell_cache expects
    let tx0 = TransactionBuilder::default()
        .input(CellInput::new_cellbase_input(0))
        .outputs((0..6).map(|_| output()))
        .outputs_data((0..6u8).map(|i| Bytes::from(vec![i; 3 + i as usize]).pack()))
        .build();
    let sys = |i: u32| OutPoint::new(tx0.hash(), i);
    let tx1 = TransactionBuilder::default()
        .input(CellInput::new(OutPoint::new(Byte32::zero(), 7), 0))
        .outputs((0..2).map(|_| output()))
        .outputs_data(vec![group_data(&[sys(1), sys(3)]).pack(), group_data(&[sys(4), sys(3)]).pack()])
        .build();
    let genesis: BlockView = BlockBuilder::default().transaction(tx0.clone()).transaction(tx1.clone()).build();
    let mut prov = Prov { cells: HashMap::new(), dead: HashSet::new() };
    for tx in [&tx0, &tx1] {
        for (i, (o, d)) in tx.outputs_with_data_iter().enumerate() { prov.cells.insert(OutPoint::new(tx.hash(), i as u32), (o, d)); }
    }
    let plain: Vec<OutPoint> = (0..24).map(|i| op(0x11, i)).collect();
    for p in &plain { prov.cells.insert(p.clone(), (output(), Bytes::from(vec![7u8; 2]))); }
    let mut user_groups = vec![];
    for (gi, members) in [vec![0usize], vec![1, 2], vec![3, 4, 5], vec![2, 6], vec![7, 8, 9, 10]].into_iter().enumerate() {
        let g = op(0x22, gi as u32);
        let ms: Vec<OutPoint> = members.iter().map(|m| plain[*m].clone()).collect();
        prov.cells.insert(g.clone(), (output(), group_data(&ms)));
        user_groups.push((g, ms));
    }
    let inputs: Vec<OutPoint> = (0..6).map(|i| op(0x66, i)).collect();
    for i in &inputs { prov.cells.insert(i.clone(), (output(), Bytes::new())); }
    World { genesis, prov, sys_code: vec![sys(1), sys(2), sys(3)], sys_groups: vec![OutPoint::new(tx1.hash(), 0), OutPoint::new(tx1.hash(), 1)], plain, user_groups, inputs }
}

fn gen_tx(w: &World, rng: &mut Rng) -> (TransactionView, Vec<OutPoint>) {
    let mut deps: Vec<CellDep> = vec![];
    let mut touched: Vec<OutPoint> = vec![]; // every out point the transaction depends on (candidates to consume)
    let code = |o: &OutPoint| CellDep::new_builder().out_point(o.clone()).dep_type(DepType::Code).build();
    let group = |o: &OutPoint| CellDep::new_builder().out_point(o.clone()).dep_type(DepType::DepGroup).build();
    for s in &w.sys_code { if rng.chance(1, 3) { deps.push(code(s)); } }
    for s in &w.sys_groups { if rng.chance(1, 3) { deps.push(group(s)); } }
    for _ in 0..rng.below(3) { let p = rng.pick(&w.plain[12..]).clone(); deps.push(code(&p)); touched.push(p); }
    for _ in 0..rng.range(0, 2) {
        let (g, ms) = rng.pick(&w.user_groups).clone();
        deps.push(group(&g));
        touched.push(g);
        touched.extend(ms);
    }
    for i in (1..deps.len()).rev() { let j = rng.below(i as u64 + 1) as usize; deps.swap(i, j); }
    let n_in = rng.range(1, 2) as usize;
    let mut ins = vec![];
    while ins.len() < n_in { let i = rng.pick(&w.inputs).clone(); if !ins.contains(&i) { ins.push(i); } }
    touched.extend(ins.iter().cloned());
    let tx = TransactionBuilder::default()
        .inputs(ins.iter().map(|i| CellInput::new(i.clone(), 0)))
        .output(output()).output_data(Bytes::new().pack())
        .cell_deps(deps)
        .build();
    (tx, touched)
}

pub fn stream_recheck(seed: u64, n: u64, sink: &mut Sink) {
    let w = world();
    let hc = AnyHeader;
    // the same cases in both phases
    let mut cases = vec![];
    let mut rng = crate::stream_rng(seed, "recheck");
    for ci in 0..n {
        let (tx, touched) = gen_tx(&w, &mut rng);
        // context B: 0..2 of the cells the transaction depends on are consumed (or, rarely, something unrelated)
        let mut kill: Vec<OutPoint> = vec![];
        for _ in 0..rng.below(3) {
            if !touched.is_empty() && !rng.chance(1, 8) { kill.push(rng.pick(&touched).clone()); } else { kill.push(rng.pick(&w.plain[..12]).clone()); }
        }
        let unknown = rng.chance(1, 10); // consumed long ago: not even known as dead
        cases.push((ci, tx, kill, unknown));
    }
    for phase in ["SYSTEM_CELL unset", "SYSTEM_CELL set"] {
        if phase == "SYSTEM_CELL set" && setup_system_cell_cache(&w.genesis, &w.prov).is_err() {
            sink.violation("SYSTEM_CELL was already set in this process; the re-check stream needs to set it itself", json!({"stream": "recheck"}), None);
            return;
        }
        for (ci, tx, kill, unknown) in &cases {
            if !sink.wanted("recheck", *ci) { continue; }
            sink.evaluations += 1;
            *sink.stats.entry(format!("recheck_cases ({phase})")).or_default() += 1;
            let desc = json!({"stream": "recheck", "index": ci, "seed": seed, "phase": phase, "cell_deps": tx.cell_deps().len(), "inputs": tx.inputs().len(),
                              "consumed_in_between": kill.iter().map(|k| format!("{k}")).collect::<Vec<_>>(), "consumed_cells_unknown": unknown});
            let r = crate::guarded(std::panic::AssertUnwindSafe(|| {
                let mut seen = HashSet::new();
                let rtx = match resolve_transaction(tx.clone(), &mut seen, &w.prov, &hc) { Ok(r) => r, Err(e) => return Some(format!("context A does not resolve: {e:?}")) };
                let mut b = w.prov.clone();
                for k in kill { if *unknown { b.cells.remove(k); } else { b.dead.insert(k.clone()); } }
                let mut s1 = HashSet::new();
                let re = rtx.check(&mut s1, &b, &hc);
                let mut s2 = HashSet::new();
                let fresh = resolve_transaction(tx.clone(), &mut s2, &b, &hc);
                if re.is_ok() != fresh.is_ok() {
                    return Some(format!("re-validation of the transaction resolved earlier answers {:?}, a fresh resolution in the same context answers {:?}", re, fresh.as_ref().map(|_| ()).map_err(|e| e.clone())));
                }
                if let Err(e) = &re {
                    // the out point blamed must be one that is really gone
                    let blamed = match e { OutPointError::Dead(o) | OutPointError::Unknown(o) => Some(o.clone()), _ => None };
                    if let Some(o) = blamed { if !kill.contains(&o) { return Some(format!("re-validation blames {o}, which is live in that context")); } }
                }
                None
            }));
            match r {
                None => sink.violation("panic in resolve_transaction / ResolvedTransaction::check", desc.clone(), None),
                Some(Some(what)) if what.starts_with("context A") => sink.violation(&format!("generator defect: {what}"), desc.clone(), None),
                Some(Some(what)) => {
                    *sink.stats.entry("recheck_differences".into()).or_default() += 1;
                    sink.violation(&what, desc.clone(), None)
                }
                Some(None) => {}
            }
            if sink.samples.len() < 8 && *ci == 0 && phase == "SYSTEM_CELL set" { sink.samples.push(desc); }
        }
    }
}
