//! Since decoding, SinceVerifier, MaturityVerifier, TimeRelativeTransactionVerifier.
use crate::*;
use ckb_chain_spec::consensus::{ConsensusBuilder, ProposalWindow};
use ckb_error::Error;
use ckb_traits::{HeaderFields, HeaderFieldsProvider};
use ckb_types::{
    bytes::Bytes,
    core::{
        cell::{CellMeta, CellMetaBuilder, ResolvedTransaction},
        hardfork::{HardForks, CKB2021, CKB2023},
        EpochNumberWithFraction, HeaderView, TransactionBuilder, TransactionInfo,
    },
    packed::{Byte32, CellInput, CellOutput, OutPoint},
    prelude::*,
};
use ckb_verification::{
    MaturityVerifier, Since, SinceMetric, SinceVerifier, TimeRelativeTransactionVerifier, TransactionError, TxVerifyEnv,
};
use std::collections::HashMap;
use std::sync::Arc;

// ---------------------------------------------------------------------------
// stream: the decoders of Since on single u64 values
// ---------------------------------------------------------------------------
pub fn stream_since_decode(seed: u64, thorough: bool, sink: &mut Sink) {
    let mut rng = stream_rng(seed, "since-decode");
    let lim = u64::MAX / 1000; // 18446744073709551
    let mut values: Vec<u64> = vec![0, 1, 2, (1 << 56) - 1, (1 << 56) - 2, lim - 1, lim, lim + 1, lim + 2, 1 << 55, 0xffff_ffff_ffff];
    for _ in 0..(if thorough { 40 } else { 5 }) {
        values.push(rng.next() & ((1 << 56) - 1));
    }
    let mut idx = 0u64;
    for flags in 0u64..256 {
        for v in &values {
            let s = (flags << 56) | v;
            if sink.wanted("since-decode", idx) {
                since_decode_one(s, idx, seed, sink);
            }
            idx += 1;
        }
    }
}

fn since_decode_one(s: u64, idx: u64, seed: u64, sink: &mut Sink) {
    let desc0 = json!({"stream": "since-decode", "index": idx, "seed": seed, "since": format!("{:#018x}", s)});
    sink.evaluations += 1;
    sink.count("since_decode");
    let r = guarded(move || {
        let since = Since(s);
        let (tag, payload) = match since.extract_metric() {
            Some(SinceMetric::BlockNumber(n)) => (0u64, n),
            Some(SinceMetric::EpochNumberWithFraction(e)) => (1, e.full_value()),
            Some(SinceMetric::Timestamp(t)) => (2, t),
            None => (3, 0),
        };
        (since.is_absolute(), since.flags_is_valid(), since.timestamp_overflows(), tag, payload)
    });
    // RFC-17, written independently
    let v = s & ((1u64 << 56) - 1);
    let m = (s >> 61) & 3;
    let want_abs = s >> 63 == 0;
    let want_valid = (s >> 56) & 0x1f == 0 && m != 3;
    let ms = v as u128 * 1000;
    let want_ovf = m == 2 && ms > u64::MAX as u128;
    let want_payload = match m {
        0 | 1 => v,
        2 => std::cmp::min(ms, u64::MAX as u128) as u64,
        _ => 0,
    };
    match r {
        None => {
            sink.violation("Since decoding panicked", desc0.clone(), None);
            // no Coq case: a panic has no representation in since_case
        }
        Some((abs, valid, ovf, tag, payload)) => {
            if abs != want_abs || valid != want_valid || ovf != want_ovf || tag != m || (m != 3 && payload != want_payload) {
                let mut d = desc0.clone();
                d["observed"] = json!({"is_absolute": abs, "flags_is_valid": valid, "timestamp_overflows": ovf, "metric": tag, "payload": payload.to_string()});
                d["rfc17"] = json!({"is_absolute": want_abs, "flags_is_valid": want_valid, "timestamp_overflows": want_ovf, "metric": m, "payload": want_payload.to_string()});
                sink.violation("Since decoders disagree with the RFC-17 layout", d, None);
            }
            let coq = format!(
                "mkSinceCase {} {} {} {} {} {}",
                coq_n(s as u128), coq_bool(abs), coq_bool(valid), coq_bool(ovf), coq_n(tag as u128), coq_n(payload as u128)
            );
            let mut d = desc0;
            d["observed"] = json!([abs, valid, ovf, tag, payload.to_string()]);
            sink.distinct.insert(format!("sd{}", s));
            sink.case(G_SINCE, coq, d);
        }
    }
}

// ---------------------------------------------------------------------------
// header chain + provider
// ---------------------------------------------------------------------------
#[derive(Clone)]
pub struct Provider(pub Arc<HashMap<Byte32, HeaderFields>>);
impl HeaderFieldsProvider for Provider {
    fn get_header_fields(&self, hash: &Byte32) -> Option<HeaderFields> {
        self.0.get(hash).map(|f| HeaderFields { hash: f.hash.clone(), number: f.number, epoch: f.epoch, timestamp: f.timestamp, parent_hash: f.parent_hash.clone() })
    }
}

pub fn epoch_full(n: u64, i: u64, l: u64) -> u64 {
    (l << 40) | (i << 24) | n
}
fn ep_parts(e: u64) -> (u64, u64, u64) {
    (e & 0xff_ffff, (e >> 24) & 0xffff, (e >> 40) & 0xffff)
}
/// exact rational of an epoch value with non-zero length (or the all-zero value)
fn rat(e: u64) -> (u128, u128) {
    if e == 0 {
        (0, 1)
    } else {
        let (n, i, l) = ep_parts(e);
        (i as u128 + n as u128 * l as u128, l as u128)
    }
}
fn rat_lt(a: (u128, u128), b: (u128, u128)) -> bool {
    a.0 * b.1 < b.0 * a.1
}
fn rat_add(a: (u128, u128), b: (u128, u128)) -> (u128, u128) {
    (a.0 * b.1 + b.0 * a.1, a.1 * b.1)
}

struct Chain {
    hdrs: Vec<HeaderView>,
    epochs: Vec<u64>,
    ts: Vec<u64>,
    provider: Provider,
}

fn gen_chain(r: &mut Rng, len: usize) -> Chain {
    let mut hdrs: Vec<HeaderView> = Vec::new();
    let mut epochs = Vec::new();
    let mut tss = Vec::new();
    let mut map = HashMap::new();
    let mut parent = Byte32::zero();
    let (mut en, mut ei) = (r.below(3), 0u64);
    let mut el = *r.pick(&[1u64, 2, 3, 5, 7, 10, 30]);
    let mut ts = *r.pick(&[0u64, 1000, 1_600_000_000_000, 7_777]);
    let style = r.below(4);
    for i in 0..len {
        let e = epoch_full(en, ei, el);
        let h = HeaderView::new_advanced_builder()
            .number(i as u64)
            .epoch(EpochNumberWithFraction::from_full_value_unchecked(e))
            .timestamp(ts)
            .parent_hash(parent.clone())
            .build();
        map.insert(
            h.hash(),
            HeaderFields { hash: h.hash(), number: i as u64, epoch: h.epoch(), timestamp: ts, parent_hash: parent.clone() },
        );
        parent = h.hash();
        hdrs.push(h);
        epochs.push(e);
        tss.push(ts);
        ei += 1;
        if ei >= el {
            ei = 0;
            en += 1;
            el = *r.pick(&[1u64, 2, 3, 4, 6, 10, 16, 1800]);
        }
        ts = match style {
            0 => ts + 1000 * r.range(0, 3),
            1 => ts + *r.pick(&[0u64, 1, 999, 1000, 1001, 8000]),
            2 => (ts + r.below(5000)).saturating_sub(r.below(1500)),
            _ => ts + 1000,
        };
    }
    Chain { hdrs, epochs, ts: tss, provider: Provider(Arc::new(map)) }
}

#[derive(Clone, Copy, Debug)]
enum Phase {
    Submitted,
    Proposed(u64),
    Committed,
}

#[derive(Clone, Debug)]
struct Info {
    number: u64,
    epoch: u64,
    pos: usize,
    index: u64,
}

#[derive(Clone, Copy, PartialEq, Eq, Debug)]
enum V {
    Ok,
    Immature(u64),
    InvalidSince(u64),
    Cellbase(bool, u64), // in_deps, index
    Other,
}
fn v_coq(v: &Option<V>) -> String {
    match v {
        None | Some(V::Other) => "None".into(),
        Some(V::Ok) => "(Some TOk)".into(),
        Some(V::Immature(i)) => format!("(Some (TImmature {}))", coq_n(*i as u128)),
        Some(V::InvalidSince(i)) => format!("(Some (TInvalidSince {}))", coq_n(*i as u128)),
        Some(V::Cellbase(d, i)) => format!("(Some (TCellbaseImmaturity {} {}))", coq_bool(*d), coq_n(*i as u128)),
    }
}
fn v_json(v: &Option<V>) -> Value {
    match v {
        None => json!("panic"),
        Some(x) => json!(format!("{:?}", x)),
    }
}
fn classify(r: Result<(), Error>) -> V {
    match r {
        Ok(()) => V::Ok,
        Err(e) => match e.downcast_ref::<TransactionError>() {
            Some(TransactionError::Immature { index }) => V::Immature(*index as u64),
            Some(TransactionError::InvalidSince { index }) => V::InvalidSince(*index as u64),
            Some(TransactionError::CellbaseImmaturity { inner, index }) => {
                V::Cellbase(format!("{:?}", inner).contains("CellDeps"), *index as u64)
            }
            _ => V::Other,
        },
    }
}

// ---- the rules, written from RFC-17 / RFC-28 and the property text --------
struct SpecCtx<'a> {
    chain: &'a Chain,
    phase: Phase,
    tip: usize,
    closest: u64,
    count: usize,
    rfc0028: u64,
    maturity: u64,
}
impl<'a> SpecCtx<'a> {
    fn commit_number(&self) -> u128 {
        let n = self.tip as u128;
        match self.phase {
            Phase::Submitted => n + 1 + self.closest as u128,
            Phase::Proposed(p) => n.saturating_sub(p as u128) + self.closest as u128,
            Phase::Committed => n,
        }
    }
    /// the parent of the earliest block the tx can be committed in
    fn parent_pos(&self) -> usize {
        match self.phase {
            Phase::Committed => self.tip - 1,
            _ => self.tip,
        }
    }
    fn median(&self, pos: usize) -> u64 {
        let lo = (pos + 1).saturating_sub(self.count);
        let mut v: Vec<u64> = self.chain.ts[lo..=pos].to_vec();
        v.sort();
        v[v.len() / 2]
    }
    fn commit_epoch_number(&self) -> u64 {
        let n = match self.phase {
            Phase::Submitted => 1 + self.closest,
            Phase::Proposed(p) => self.closest.saturating_sub(p),
            Phase::Committed => 0,
        };
        let (num, idx, len) = ep_parts(self.chain.epochs[self.tip]);
        if idx + n >= len { num + 1 } else { num }
    }
    fn since_one(&self, s: u64, info: &Option<Info>) -> u8 {
        // 0 ok, 1 immature, 2 invalid
        if s == 0 {
            return 0;
        }
        let v = s & ((1 << 56) - 1);
        let m = (s >> 61) & 3;
        if (s >> 56) & 0x1f != 0 || m == 3 {
            return 2;
        }
        let relative = s >> 63 == 1;
        let tip_epoch = rat(self.chain.epochs[self.tip]);
        let inc = || -> Option<(u128, u128)> {
            let (n, i, l) = ep_parts(v);
            if l == 0 && i == 0 {
                Some((n as u128, 1))
            } else if i < l {
                Some((i as u128 + n as u128 * l as u128, l as u128))
            } else {
                None
            }
        };
        if !relative {
            match m {
                0 => (self.commit_number() < v as u128) as u8,
                1 => match inc() {
                    None => 2,
                    Some(e) => rat_lt(tip_epoch, e) as u8,
                },
                _ => ((self.median(self.parent_pos()) as u128) < v as u128 * 1000) as u8,
            }
        } else {
            let info = match info {
                None => return 1,
                Some(i) => i,
            };
            match m {
                0 => (self.commit_number() < info.number as u128 + v as u128) as u8,
                1 => match inc() {
                    None => 2,
                    Some(e) => rat_lt(tip_epoch, rat_add(rat(info.epoch), e)) as u8,
                },
                _ => {
                    let base = if self.commit_epoch_number() >= self.rfc0028 {
                        self.chain.ts[info.pos]
                    } else {
                        self.median(info.pos - 1)
                    };
                    ((self.median(self.parent_pos()) as u128) < base as u128 + v as u128 * 1000) as u8
                }
            }
        }
    }
    fn since(&self, ins: &[(u64, Option<Info>)]) -> V {
        for (i, (s, info)) in ins.iter().enumerate() {
            match self.since_one(*s, info) {
                1 => return V::Immature(i as u64),
                2 => return V::InvalidSince(i as u64),
                _ => {}
            }
        }
        V::Ok
    }
    fn immature(&self, info: &Option<Info>) -> bool {
        match info {
            Some(i) => {
                i.number > 0
                    && i.index == 0
                    && rat_lt(rat(self.chain.epochs[self.tip]), rat_add(rat(self.maturity), rat(i.epoch)))
            }
            None => false,
        }
    }
    fn maturity(&self, ins: &[(u64, Option<Info>)], deps: &[Option<Info>]) -> V {
        if let Some(i) = ins.iter().position(|x| self.immature(&x.1)) {
            return V::Cellbase(false, i as u64);
        }
        if let Some(i) = deps.iter().position(|x| self.immature(x)) {
            return V::Cellbase(true, i as u64);
        }
        V::Ok
    }
}

// ---- generators aimed at the comparisons ----------------------------------
fn near(r: &mut Rng, x: u128) -> u64 {
    let d = r.below(5) as i128 - 2;
    let y = x as i128 + if r.chance(2, 3) { d.signum() * (d.abs().min(1)) } else { d };
    y.clamp(0, (1i128 << 56) - 1) as u64
}

/// an epoch increment close to the exact rational q = num/den (>= 0)
fn epoch_near(r: &mut Rng, num: u128, den: u128) -> u64 {
    let n = (num / den) as u64;
    let rem = num % den;
    let (mut i, mut l) = (rem as u64, den as u64);
    if den >= 65536 {
        l = 1000;
        i = (rem * 1000 / den) as u64;
    }
    match r.below(8) {
        0 => {}                                         // exactly q
        1 => i += 1,                                    // just above (may become ill-formed: i == l)
        2 => i = i.saturating_sub(1),
        3 => { if l * 2 < 65536 { l *= 2; i = i * 2 + 1; } } // q + 1/(2l)
        4 => { if l * 3 < 65536 && i > 0 { l *= 3; i = i * 3 - 1; } } // q - 1/(3l)
        5 => return epoch_full((n + 1) & 0xff_ffff, 0, *r.pick(&[0u64, 1, l])),
        6 => return epoch_full(n & 0xff_ffff, 0, 0),
        _ => return epoch_full(n.saturating_sub(1) & 0xff_ffff, l.saturating_sub(1), l),
    }
    epoch_full(n & 0xff_ffff, i & 0xffff, l & 0xffff)
}

fn gen_since(r: &mut Rng, cx: &SpecCtx, info: &Option<Info>) -> u64 {
    let k = r.below(100);
    if k < 6 {
        return 0;
    }
    let relative = r.chance(1, 2);
    let metric = if k < 12 { 3 } else { r.below(3) };
    let mut reserved = 0u64;
    if r.chance(1, 14) {
        reserved = r.range(1, 31);
    }
    let lim = u64::MAX / 1000;
    let v: u64 = if r.chance(1, 8) {
        *r.pick(&[0u64, 1, lim - 1, lim, lim + 1, (1 << 56) - 1, 0xffff_ffff_ffff])
    } else if r.chance(1, 8) {
        r.next() & ((1 << 56) - 1)
    } else {
        let tip_epoch = rat(cx.chain.epochs[cx.tip]);
        match (metric, relative, info) {
            (0, false, _) | (0, true, None) => near(r, cx.commit_number()),
            (0, true, Some(i)) => near(r, cx.commit_number().saturating_sub(i.number as u128)),
            (1, false, _) | (1, true, None) => epoch_near(r, tip_epoch.0, tip_epoch.1),
            (1, true, Some(i)) => {
                let b = rat(i.epoch);
                let (x, y) = (tip_epoch.0 * b.1, b.0 * tip_epoch.1);
                if x >= y { epoch_near(r, x - y, tip_epoch.1 * b.1) } else { epoch_near(r, 0, 1) }
            }
            (2, false, _) | (2, true, None) => {
                let mt = cx.median(cx.parent_pos()) as u128;
                let up = r.below(2) as u128 * 999;
                near(r, (mt + up) / 1000)
            }
            (2, true, Some(i)) => {
                let mt = cx.median(cx.parent_pos()) as u128;
                let base = if cx.commit_epoch_number() >= cx.rfc0028 { cx.chain.ts[i.pos] } else { cx.median(i.pos.max(1) - 1) } as u128;
                let up = r.below(2) as u128 * 999;
                near(r, (mt.saturating_sub(base) + up) / 1000)
            }
            _ => r.below(1000),
        }
    };
    ((relative as u64) << 63) | (metric << 61) | (reserved << 56) | v
}

fn info_coq(i: &Option<Info>) -> String {
    coq_option(i, |i| {
        format!("(mkCinfo {} {} {} {})", coq_n(i.number as u128), coq_n(i.epoch as u128), coq_n(i.pos as u128 + 1), coq_n(i.index as u128))
    })
}
fn info_json(i: &Option<Info>) -> Value {
    match i {
        None => json!(null),
        Some(i) => json!({"block_number": i.number, "block_epoch": format!("{:?}", ep_parts(i.epoch)), "header": i.pos, "tx_index": i.index}),
    }
}

fn cell_meta(info: &Option<Info>, chain: &Chain, k: u32) -> CellMeta {
    let b = CellMetaBuilder::from_cell_output(CellOutput::new_builder().capacity(5_000_000_000u64).build(), Bytes::new())
        .out_point(OutPoint::new(Byte32::zero(), k));
    match info {
        Some(i) => b
            .transaction_info(TransactionInfo {
                block_number: i.number,
                block_epoch: EpochNumberWithFraction::from_full_value_unchecked(i.epoch),
                block_hash: chain.hdrs[i.pos].hash(),
                index: i.index as usize,
            })
            .build(),
        None => b.build(),
    }
}

pub fn stream_time(seed: u64, n_chains: u64, sink: &mut Sink) {
    let mut rng = stream_rng(seed, "time");
    for ci in 0..n_chains {
        let mut r = rng.fork();
        if !sink.wanted("time", ci) {
            continue;
        }
        let count = *r.pick(&[1usize, 2, 3, 11, 11, 37]);
        let len = if count == 37 { r.range(30, 44) } else { r.range(3, 22) } as usize;
        let chain = gen_chain(&mut r, len);
        let store_coq = coq_list(&(0..len).collect::<Vec<_>>(), |i| {
            format!("({}, mkHdr {} {} {} {})", coq_n(*i as u128 + 1), coq_n(*i as u128), coq_n(chain.epochs[*i] as u128), coq_n(chain.ts[*i] as u128), coq_n(*i as u128))
        });
        let mut txs_coq = Vec::new();
        let mut txs_json = Vec::new();
        for _ in 0..12 {
            let tip = r.range(1, len as u64 - 1) as usize;
            let closest = *r.pick(&[0u64, 1, 2, 10]);
            let phase = match r.below(5) {
                0 | 1 => Phase::Committed,
                2 => Phase::Submitted,
                _ => Phase::Proposed(*r.pick(&[0u64, 1, closest, closest + 1, tip as u64 + 3])),
            };
            let tip_en = ep_parts(chain.epochs[tip]).0;
            let rfc0028 = *r.pick(&[0u64, tip_en, tip_en + 1, u64::MAX]);
            let maturity = match r.below(6) {
                0 => 0,
                1 => epoch_full(4, 0, 1),
                2 => epoch_full(0, 1, 2),
                _ => { let l = *r.pick(&[1u64, 2, 10, 1800]); epoch_full(r.below(3), r.below(l), l) }
            };
            let cx = SpecCtx { chain: &chain, phase, tip, closest, count, rfc0028, maturity };
            let gen_info = |r: &mut Rng, for_maturity: bool| -> Option<Info> {
                if r.chance(1, 10) {
                    return None;
                }
                let mut pos = r.range(0, tip as u64) as usize;
                if for_maturity && r.chance(1, 2) {
                    // aim at the maturity threshold: block_epoch ~ tip_epoch - maturity
                    let want = rat(chain.epochs[tip]);
                    let m = rat(maturity);
                    pos = (0..=tip).rev().find(|p| !rat_lt(want, rat_add(m, rat(chain.epochs[*p])))).unwrap_or(0);
                    pos = std::cmp::min(tip, pos + r.below(2) as usize);
                }
                Some(Info { number: if r.chance(1, 20) { 0 } else { pos as u64 }, epoch: chain.epochs[pos], pos, index: *r.pick(&[0u64, 0, 1, 2]) })
            };
            let n_in = r.range(1, 4);
            let mut ins: Vec<(u64, Option<Info>)> = Vec::new();
            let cellbases = r.chance(1, 3);
            for _ in 0..n_in {
                let mut info = gen_info(&mut r, cellbases);
                if !cellbases {
                    if let Some(i) = info.as_mut() {
                        if i.index == 0 && r.chance(3, 4) { i.index = 1; }
                    }
                }
                let mut s = gen_since(&mut r, &cx, &info);
                // a relative timestamp lock measured from the genesis block has no parent
                // median time before RFC 0028 (the node would look up the zero hash)
                if let Some(i) = info.as_mut() {
                    if i.pos == 0 && s >> 63 == 1 && (s >> 61) & 3 == 2 {
                        if tip >= 1 && len > 1 { i.pos = 1; i.number = 1; i.epoch = chain.epochs[1]; } else { s = 0; }
                    }
                }
                ins.push((s, info));
            }
            let deps: Vec<Option<Info>> = (0..r.below(3)).map(|_| { let mut i = gen_info(&mut r, cellbases); if !cellbases { if let Some(i) = i.as_mut() { i.index = 1; } } i }).collect();

            // ---- run the real verifiers ---------------------------------
            let consensus = Arc::new(
                ConsensusBuilder::default()
                    .median_time_block_count(count)
                    .tx_proposal_window(ProposalWindow(closest, closest + 8))
                    .cellbase_maturity(EpochNumberWithFraction::from_full_value_unchecked(maturity))
                    .hardfork_switch(HardForks {
                        ckb2021: CKB2021::new_dev_default().as_builder().rfc_0028(rfc0028).build().unwrap(),
                        ckb2023: CKB2023::new_dev_default(),
                    })
                    .build(),
            );
            let header = &chain.hdrs[tip];
            let env = Arc::new(match phase {
                Phase::Submitted => TxVerifyEnv::new_submit(header),
                Phase::Proposed(n) => TxVerifyEnv::new_proposed(header, n),
                Phase::Committed => TxVerifyEnv::new_commit(header),
            });
            let tx = TransactionBuilder::default()
                .inputs(ins.iter().enumerate().map(|(k, (s, _))| CellInput::new(OutPoint::new(Byte32::zero(), k as u32), *s)))
                .build();
            let rtx = Arc::new(ResolvedTransaction {
                transaction: tx,
                resolved_inputs: ins.iter().enumerate().map(|(k, (_, i))| cell_meta(i, &chain, k as u32)).collect(),
                resolved_cell_deps: deps.iter().enumerate().map(|(k, i)| cell_meta(i, &chain, 100 + k as u32)).collect(),
                resolved_dep_groups: vec![],
            });
            let (r1, c1, p1, e1) = (Arc::clone(&rtx), Arc::clone(&consensus), chain.provider.clone(), Arc::clone(&env));
            let vs = guarded(move || classify(SinceVerifier::new(r1, c1, p1, e1).verify()));
            let (r2, ep) = (Arc::clone(&rtx), header.epoch());
            let vm = guarded(move || classify(MaturityVerifier::new(r2, ep, EpochNumberWithFraction::from_full_value_unchecked(maturity)).verify()));
            let (r3, c3, p3, e3) = (Arc::clone(&rtx), Arc::clone(&consensus), chain.provider.clone(), Arc::clone(&env));
            let vb = guarded(move || classify(TimeRelativeTransactionVerifier::new(r3, c3, p3, e3).verify()));
            sink.evaluations += 3;
            sink.count("time_txs");
            sink.count(&format!("phase_{}", match phase { Phase::Submitted => "submitted", Phase::Proposed(_) => "proposed", Phase::Committed => "committed" }));

            // ---- property predicate ----------------------------------------
            let want_s = cx.since(&ins);
            let want_m = cx.maturity(&ins, &deps);
            let want_b = if want_m != V::Ok { want_m } else { want_s };
            let tj = json!({
                "phase": format!("{:?}", phase), "tip": tip, "tip_epoch": format!("{:?}", ep_parts(chain.epochs[tip])), "closest": closest,
                "median_count": count, "rfc0028": rfc0028.to_string(), "cellbase_maturity": format!("{:?}", ep_parts(maturity)),
                "inputs": ins.iter().map(|(s, i)| json!({"since": format!("{:#018x}", s), "info": info_json(i)})).collect::<Vec<_>>(),
                "deps": deps.iter().map(info_json).collect::<Vec<_>>(),
                "observed": {"since": v_json(&vs), "maturity": v_json(&vm), "time_relative": v_json(&vb)},
            });
            for (name, got, want) in [("SinceVerifier", &vs, want_s), ("MaturityVerifier", &vm, want_m), ("TimeRelativeTransactionVerifier", &vb, want_b)] {
                let d = || json!({"stream": "time", "index": ci, "seed": seed, "verifier": name, "tx": tj, "timestamps": chain.ts, "rule_says": format!("{:?}", want)});
                match got {
                    None => sink.violation(&format!("{name} panicked"), d(), None),
                    Some(g) if *g != want => sink.violation(&format!("{name} disagrees with the since/maturity rules"), d(), None),
                    _ => {}
                }
            }
            for (s, _) in &ins {
                if *s != 0 {
                    sink.count(&format!("since_{}_{}", if s >> 63 == 1 { "rel" } else { "abs" }, ["block", "epoch", "time", "none"][((s >> 61) & 3) as usize]));
                }
            }
            sink.count(&format!("since_verdict_{}", match vs { Some(V::Ok) => "ok", Some(V::Immature(_)) => "immature", Some(V::InvalidSince(_)) => "invalid", None => "panic", _ => "other" }));
            sink.count(&format!("maturity_verdict_{}", match vm { Some(V::Ok) => "ok", Some(V::Cellbase(..)) => "immature", None => "panic", _ => "other" }));
            sink.distinct.insert(format!("t{}", tj));
            let (phase_coq, hash_id, parent_id) = (
                match phase { Phase::Submitted => "Submitted".to_string(), Phase::Proposed(n) => format!("(Proposed {})", coq_n(n as u128)), Phase::Committed => "Committed".into() },
                tip as u128 + 1, tip as u128,
            );
            txs_coq.push(format!(
                "mkTimeTx (mkParams {} {} {} {}) (mkEnv {} {} {} {} {}) {} {} {} {} {}",
                coq_n(closest as u128), coq_nat(count as u64), coq_n(rfc0028 as u128), coq_n(maturity as u128),
                phase_coq, coq_n(tip as u128), coq_n(chain.epochs[tip] as u128), coq_n(hash_id), coq_n(parent_id),
                coq_list(&ins, |(s, i)| format!("({}, {})", coq_n(*s as u128), info_coq(i))),
                coq_list(&deps, info_coq), v_coq(&vs), v_coq(&vm), v_coq(&vb)
            ));
            txs_json.push(tj);
        }
        let coq = format!("mkTimeCase {} {}", store_coq, coq_list(&txs_coq, |s| s.clone()));
        sink.case(G_TIME, coq, json!({"stream": "time", "index": ci, "seed": seed, "timestamps": chain.ts,
            "epochs": chain.epochs.iter().map(|e| format!("{:?}", ep_parts(*e))).collect::<Vec<_>>(), "txs": txs_json}));
    }
}
