//! resolve_transaction / BlockCellProvider / OverlayCellProvider on generated
//! stores, transactions and blocks.
use crate::*;
use ckb_types::{
    bytes::Bytes,
    core::{
        cell::{resolve_transaction, BlockCellProvider, CellMeta, CellProvider, CellStatus, HeaderChecker, OverlayCellProvider, ResolvedTransaction},
        error::OutPointError,
        BlockBuilder, DepType, TransactionBuilder, TransactionView,
    },
    packed::{self, Byte32, CellDep, CellInput, CellOutput, OutPoint},
    prelude::*,
};
use std::collections::{BTreeMap, HashMap, HashSet};

pub type Op = (u64, u32); // (tx id, index); id 0 = the zero hash

#[derive(Clone, Debug, PartialEq)]
pub enum Data {
    Raw(u8),        // 0 = empty data, otherwise some bytes that are not an OutPointVec
    Group(Vec<Op>), // a serialized OutPointVec
}
#[derive(Clone, Debug, PartialEq)]
pub enum St {
    Live(Data),
    Dead,
}

pub struct Ids {
    pub by_hash: HashMap<Byte32, u64>,
    pub by_id: HashMap<u64, Byte32>,
}
impl Ids {
    pub fn new() -> Self {
        let mut s = Ids { by_hash: HashMap::new(), by_id: HashMap::new() };
        s.add(0, Byte32::zero());
        s
    }
    pub fn add(&mut self, id: u64, h: Byte32) {
        self.by_hash.insert(h.clone(), id);
        self.by_id.insert(id, h);
    }
    /// a made-up transaction / header hash for store cells
    pub fn fake(&mut self, id: u64) -> Byte32 {
        if let Some(h) = self.by_id.get(&id) {
            return h.clone();
        }
        let mut b = [0xEEu8; 32];
        b[..8].copy_from_slice(&id.to_le_bytes());
        let h = Byte32::from_slice(&b).unwrap();
        self.add(id, h.clone());
        h
    }
    pub fn op(&self, o: &Op) -> OutPoint {
        OutPoint::new(self.by_id[&o.0].clone(), o.1)
    }
    pub fn un(&self, o: &OutPoint) -> Op {
        let idx: u32 = o.index().into();
        (*self.by_hash.get(&o.tx_hash()).unwrap_or(&u64::MAX), idx)
    }
}

fn data_bytes(d: &Data, ids: &Ids) -> Bytes {
    match d {
        Data::Raw(0) => Bytes::new(),
        Data::Raw(k) => Bytes::from(vec![*k; 5]),
        Data::Group(l) => Into::<packed::OutPointVec>::into(l.iter().map(|o| ids.op(o)).collect::<Vec<_>>()).as_bytes(),
    }
}

pub struct Store {
    pub cells: HashMap<OutPoint, (St, Bytes)>,
}
impl CellProvider for Store {
    fn cell(&self, o: &OutPoint, eager_load: bool) -> CellStatus {
        match self.cells.get(o) {
            Some((St::Live(_), data)) => CellStatus::live_cell(CellMeta {
                cell_output: CellOutput::new_builder().capacity(100u64).build(),
                out_point: o.clone(),
                transaction_info: None,
                data_bytes: data.len() as u64,
                mem_cell_data: if eager_load { Some(data.clone()) } else { None },
                mem_cell_data_hash: None,
            }),
            Some((St::Dead, _)) => CellStatus::Dead,
            None => CellStatus::Unknown,
        }
    }
}
pub struct Headers(pub HashSet<Byte32>);
impl HeaderChecker for Headers {
    fn check_valid(&self, h: &Byte32) -> Result<(), OutPointError> {
        if self.0.contains(h) { Ok(()) } else { Err(OutPointError::InvalidHeader(h.clone())) }
    }
}

#[derive(Clone, Debug)]
pub struct TxSpec {
    pub inputs: Vec<Op>,
    pub deps: Vec<(Op, bool)>,
    pub hdeps: Vec<u64>,
    pub nwit: usize,
    pub outs: Vec<Data>,
    pub salt: u64,
}
pub const NULL: Op = (0, u32::MAX);
impl TxSpec {
    pub fn is_cellbase(&self) -> bool {
        self.inputs.len() == 1 && self.nwit == 1 && self.inputs[0] == NULL
    }
    pub fn build(&self, ids: &mut Ids) -> TransactionView {
        let mut b = TransactionBuilder::default();
        for i in &self.inputs {
            b = b.input(CellInput::new(ids.op(i), 0));
        }
        for (o, g) in &self.deps {
            b = b.cell_dep(CellDep::new_builder().out_point(ids.op(o)).dep_type(if *g { DepType::DepGroup } else { DepType::Code }).build());
        }
        for h in &self.hdeps {
            let hh = ids.fake(10_000 + *h);
            b = b.header_dep(hh);
        }
        for _ in 0..self.nwit {
            b = b.witness(Bytes::new().pack());
        }
        for (k, d) in self.outs.iter().enumerate() {
            b = b.output(CellOutput::new_builder().capacity(1000 + self.salt * 16 + k as u64).build());
            b = b.output_data(data_bytes(d, ids).pack());
        }
        b.build()
    }
}

pub(crate) fn op_coq(o: &Op) -> String {
    format!("({}, {})", coq_n(o.0 as u128), coq_n(o.1 as u128))
}
fn data_coq(d: &Data) -> String {
    match d {
        Data::Raw(_) => "DRaw".into(),
        Data::Group(l) => format!("(DGroup {})", coq_list(l, op_coq)),
    }
}
pub(crate) fn tx_coq(t: &TxSpec) -> String {
    format!(
        "(mkTx {} {} {} {})",
        coq_list(&t.inputs, op_coq),
        coq_list(&t.deps, |(o, g)| format!("({}, {})", op_coq(o), coq_bool(*g))),
        coq_list(&t.hdeps, |h| coq_n(10_000 + *h as u128)),
        coq_n(t.nwit as u128)
    )
}
pub(crate) fn cells_coq(cells: &BTreeMap<Op, St>) -> String {
    let v: Vec<_> = cells.iter().collect();
    coq_list(&v, |(o, s)| {
        format!("({}, {})", op_coq(o), match s { St::Live(d) => format!("Live {}", data_coq(d)), St::Dead => "Dead".into() })
    })
}
fn tx_json(t: &TxSpec) -> Value {
    json!({"inputs": t.inputs, "cell_deps": t.deps.iter().map(|(o, g)| json!({"out_point": o, "dep_group": g})).collect::<Vec<_>>(),
           "header_deps": t.hdeps, "witnesses": t.nwit,
           "outputs": t.outs.iter().map(|d| match d { Data::Raw(_) => json!("data"), Data::Group(l) => json!({"out_point_vec": l.len()}) }).collect::<Vec<_>>()})
}

#[derive(Clone, Debug, PartialEq)]
pub enum RR {
    Ok(Vec<Op>, Vec<Op>, Vec<Op>),
    Dead(Op),
    Unknown(Op),
    InvalidDepGroup(Op),
    OverLimit,
    InvalidHeader(u64),
    OutOfOrder(Op),
}
pub(crate) fn classify_err(e: &OutPointError, ids: &Ids) -> RR {
    match e {
        OutPointError::Dead(o) => RR::Dead(ids.un(o)),
        OutPointError::Unknown(o) => RR::Unknown(ids.un(o)),
        OutPointError::InvalidDepGroup(o) => RR::InvalidDepGroup(ids.un(o)),
        OutPointError::OverMaxDepExpansionLimit => RR::OverLimit,
        OutPointError::InvalidHeader(h) => RR::InvalidHeader(*ids.by_hash.get(h).unwrap_or(&u64::MAX)),
        OutPointError::OutOfOrder(o) => RR::OutOfOrder(ids.un(o)),
    }
}
pub(crate) fn classify_ok(r: &ResolvedTransaction, ids: &Ids) -> RR {
    let f = |v: &Vec<CellMeta>| v.iter().map(|m| ids.un(&m.out_point)).collect::<Vec<_>>();
    RR::Ok(f(&r.resolved_inputs), f(&r.resolved_cell_deps), f(&r.resolved_dep_groups))
}
pub(crate) fn rtx_coq(a: &[Op], b: &[Op], c: &[Op]) -> String {
    format!("(mkRtx {} {} {})", coq_list(a, op_coq), coq_list(b, op_coq), coq_list(c, op_coq))
}
fn rr_coq(r: &Option<RR>) -> String {
    match r {
        None => "None".into(),
        Some(RR::Ok(a, b, c)) => format!("(Some (Ok {}))", rtx_coq(a, b, c)),
        Some(e) => format!("(Some (Err {}))", err_coq(e)),
    }
}
pub(crate) fn err_coq(e: &RR) -> String {
    match e {
        RR::Dead(o) => format!("(EDead {})", op_coq(o)),
        RR::Unknown(o) => format!("(EUnknown {})", op_coq(o)),
        RR::InvalidDepGroup(o) => format!("(EInvalidDepGroup {})", op_coq(o)),
        RR::OverLimit => "EOverMaxDepExpansionLimit".into(),
        RR::InvalidHeader(h) => format!("(EInvalidHeader {})", coq_n(*h as u128)),
        RR::OutOfOrder(o) => format!("(EOutOfOrder {})", op_coq(o)),
        RR::Ok(..) => unreachable!(),
    }
}
pub(crate) fn rr_class(r: &Option<RR>) -> &'static str {
    match r {
        None => "panic",
        Some(RR::Ok(..)) => "ok",
        Some(RR::Dead(_)) => "dead",
        Some(RR::Unknown(_)) => "unknown",
        Some(RR::InvalidDepGroup(_)) => "invalid_dep_group",
        Some(RR::OverLimit) => "over_dep_limit",
        Some(RR::InvalidHeader(_)) => "invalid_header",
        Some(RR::OutOfOrder(_)) => "out_of_order",
    }
}

// ---- the rule, from the property text ------------------------------------
/// `live(o)`: the data of the cell if it is live at this point, None otherwise
fn spec_tx_ok<F: Fn(&Op) -> Option<Data>>(t: &TxSpec, spent: &HashSet<Op>, live: F, hdr_ok: &HashSet<u64>) -> bool {
    let usable = |o: &Op| -> Option<Data> { if spent.contains(o) { None } else { live(o) } };
    if !t.is_cellbase() {
        let mut seen = HashSet::new();
        for i in &t.inputs {
            if !seen.insert(*i) || usable(i).is_none() {
                return false;
            }
        }
    }
    let mut expanded: u64 = 0;
    for (o, g) in &t.deps {
        match (usable(o), g) {
            (None, _) => return false,
            (Some(_), false) => expanded += 1,
            (Some(Data::Group(l)), true) if !l.is_empty() => {
                expanded += l.len() as u64;
                if l.iter().any(|s| usable(s).is_none()) {
                    return false;
                }
            }
            _ => return false,
        }
    }
    expanded <= 2048 && t.hdeps.iter().all(|h| hdr_ok.contains(h))
}

// ---- generation -------------------------------------------------------------
struct World {
    cells: BTreeMap<Op, St>,
    hdr_ok: HashSet<u64>,
}
fn gen_world(r: &mut Rng, with_big_group: bool) -> World {
    let mut cells = BTreeMap::new();
    let n_tx = r.range(3, 7);
    for id in 1..=n_tx {
        for idx in 0..r.range(1, 3) as u32 {
            let st = match r.below(10) {
                0 | 1 => St::Dead,
                2 => continue,
                _ => St::Live(Data::Raw(r.below(3) as u8)),
            };
            cells.insert((id, idx), st);
        }
    }
    // dep-group cells (tx id 50): well-formed, empty vector, with a dead / unknown / duplicate member
    let all: Vec<Op> = cells.keys().cloned().collect();
    let live: Vec<Op> = cells.iter().filter(|(_, s)| matches!(s, St::Live(_))).map(|(o, _)| *o).collect();
    if !live.is_empty() {
        for idx in 0..4u32 {
            let mut l: Vec<Op> = (0..r.range(1, 3)).map(|_| *r.pick(&live)).collect();
            match r.below(8) {
                0 => l.clear(),
                1 => l.push(*r.pick(&all)),
                2 => l.push((r.range(1, 9), 7)),
                3 => { let x = l[0]; l.push(x); }
                _ => {}
            }
            cells.insert((50, idx), if r.chance(1, 9) { St::Dead } else { St::Live(Data::Group(l)) });
        }
    }
    if with_big_group {
        for k in 0..256u32 {
            cells.insert((60, k), St::Live(Data::Raw(0)));
        }
        cells.insert((61, 0), St::Live(Data::Group((0..256u32).map(|k| (60, k)).collect())));
        cells.insert((61, 1), St::Live(Data::Group((0..255u32).map(|k| (60, k)).collect())));
        cells.insert((61, 2), St::Live(Data::Group((0..257u32).map(|k| (60, k % 256)).collect())));
    }
    let hdr_ok = (0..4u64).filter(|_| r.chance(2, 3)).collect();
    World { cells, hdr_ok }
}

fn gen_tx(r: &mut Rng, w: &World, extra: &[Op], salt: u64, limit_case: bool) -> TxSpec {
    let mut pool: Vec<Op> = w.cells.keys().filter(|o| o.0 < 50).cloned().collect();
    pool.extend_from_slice(extra);
    let live: Vec<Op> = pool.iter().filter(|o| !matches!(w.cells.get(o), Some(St::Dead))).cloned().collect();
    let pick = |r: &mut Rng| -> Op {
        match r.below(12) {
            0 => *r.pick(&pool),
            1 => (r.range(1, 9), r.range(0, 4) as u32), // possibly unknown
            _ => if live.is_empty() { (1, 0) } else { *r.pick(&live) },
        }
    };
    let mut inputs: Vec<Op> = (0..r.range(1, 3)).map(|_| pick(r)).collect();
    if r.chance(1, 12) && !inputs.is_empty() {
        let x = inputs[0];
        inputs.push(x); // duplicate input
    }
    let mut nwit = r.below(3) as usize;
    match r.below(30) {
        0 => { inputs = vec![NULL]; nwit = 1; }          // a cellbase
        1 => { inputs = vec![NULL]; nwit = *r.pick(&[0usize, 2]); } // null input, not a cellbase
        2 => { inputs.push(NULL); nwit = 1; }
        _ => {}
    }
    let mut deps: Vec<(Op, bool)> = Vec::new();
    if limit_case {
        // expansion count around MAX_DEP_EXPANSION_LIMIT = 2048 = 8 * 256
        let shape = r.below(7);
        let code = (pick(r), false);
        let g = |k: u32| ((61u64, k), true);
        deps = match shape {
            0 => vec![g(0); 8],                                                    // exactly 2048
            1 => { let mut v = vec![g(0); 8]; v.push(code); v }                    // 2049, code dep last
            2 => { let mut v = vec![code]; v.extend(vec![g(0); 8]); v }            // 2049, group last
            3 => { let mut v = vec![g(0); 7]; v.push(g(1)); v.push(code); v }      // 2048 with a code dep
            4 => { let mut v = vec![g(0); 7]; v.push(g(2)); v }                    // 2049 by a group of 257
            5 => { let mut v = vec![g(0); 7]; v.push(g(1)); v }                    // 2047
            _ => { let mut v = vec![g(0); 7]; v.push(g(1)); v.push(code); v.push(code); v } // 2049
        };
    } else {
        for _ in 0..r.below(4) {
            if r.chance(1, 2) && w.cells.contains_key(&(50, 0)) {
                let o = (50u64, r.below(5) as u32);
                deps.push((o, r.chance(5, 6)));
            } else {
                let o = pick(r);
                deps.push((o, r.chance(1, 8))); // sometimes a plain cell used as a dep group
            }
        }
        if r.chance(1, 10) && !inputs.is_empty() && inputs[0] != NULL {
            deps.push((inputs[0], false)); // the same cell as input and as dep
        }
    }
    let mut hdeps: Vec<u64> = (0..r.below(3)).map(|_| r.below(5)).collect();
    if limit_case {
        // keep everything else acceptable so that the expansion count decides
        inputs = vec![if live.is_empty() { (1, 0) } else { live[0] }];
        nwit = 0;
        hdeps.clear();
        deps.retain(|d| d.1 || live.contains(&d.0));
    }
    let outs = (0..r.range(1, 3)).map(|_| Data::Raw(r.below(2) as u8)).collect();
    TxSpec { inputs, deps, hdeps, nwit, outs, salt }
}

fn make_store(w: &World, ids: &mut Ids) -> (Store, Headers) {
    for o in w.cells.keys() {
        ids.fake(o.0);
    }
    for (_, s) in w.cells.iter() {
        if let St::Live(Data::Group(l)) = s {
            for o in l {
                ids.fake(o.0);
            }
        }
    }
    let mut cells = HashMap::new();
    for (o, s) in w.cells.iter() {
        let bytes = match s { St::Live(d) => data_bytes(d, ids), St::Dead => Bytes::new() };
        cells.insert(ids.op(o), (s.clone(), bytes));
    }
    let hs = w.hdr_ok.iter().map(|h| ids.fake(10_000 + *h)).collect();
    (Store { cells }, Headers(hs))
}
fn register_tx_ids(t: &TxSpec, ids: &mut Ids) {
    for o in t.inputs.iter().chain(t.deps.iter().map(|d| &d.0)) {
        ids.fake(o.0);
    }
}

// ---------------------------------------------------------------------------
// stream: sequences of transactions resolved against one provider with one
// seen_inputs set
// ---------------------------------------------------------------------------
pub fn stream_seq(seed: u64, n: u64, sink: &mut Sink) {
    let mut rng = stream_rng(seed, "seq");
    for ci in 0..n {
        let mut r = rng.fork();
        if !sink.wanted("seq", ci) {
            continue;
        }
        let limit_case = ci % 10 == 0;
        let w = gen_world(&mut r, limit_case);
        let mut ids = Ids::new();
        let (store, headers) = make_store(&w, &mut ids);
        let keys: Vec<Op> = w.cells.keys().cloned().collect();
        // OverlayCellProvider (the pool's view over the chain): some cells are shadowed
        let mut over: BTreeMap<Op, St> = BTreeMap::new();
        if ci % 3 == 1 {
            for o in keys.iter().filter(|o| o.0 < 50) {
                match r.below(6) {
                    0 => { over.insert(*o, St::Dead); }
                    1 => { over.insert(*o, St::Live(Data::Raw(1))); }
                    _ => {}
                }
            }
            over.insert((r.range(1, 9), 3), St::Live(Data::Raw(0)));
            sink.count("seq_with_overlay");
        }
        let over_store = { let ow = World { cells: over.clone(), hdr_ok: HashSet::new() }; make_store(&ow, &mut ids).0 };
        let eff: BTreeMap<Op, St> = { let mut m = w.cells.clone(); for (k, v) in over.iter() { m.insert(*k, v.clone()); } m };
        let seen0: Vec<Op> = (0..r.below(3)).map(|_| *r.pick(&keys)).collect();
        let txs: Vec<TxSpec> = (0..r.range(1, 4)).map(|k| gen_tx(&mut r, &w, &[], k, limit_case && k == 0)).collect();
        for t in &txs {
            register_tx_ids(t, &mut ids);
        }
        let mut seen: HashSet<OutPoint> = seen0.iter().map(|o| ids.op(o)).collect();
        let mut spent: HashSet<Op> = seen0.iter().cloned().collect();
        let mut results = Vec::new();
        for (k, t) in txs.iter().enumerate() {
            let view = t.build(&mut ids);
            let before = seen.clone();
            let got = {
                let (s, st, h) = (&mut seen, &store, &headers);
                let res = std::panic::catch_unwind(std::panic::AssertUnwindSafe(|| {
                    if over.is_empty() {
                        resolve_transaction(view, s, st, h)
                    } else {
                        resolve_transaction(view, s, &OverlayCellProvider::new(&over_store, st), h)
                    }
                }));
                match res {
                    Err(_) => None,
                    Ok(Ok(rtx)) => Some(classify_ok(&rtx, &ids)),
                    Ok(Err(e)) => Some(classify_err(&e, &ids)),
                }
            };
            sink.evaluations += 1;
            sink.count(&format!("resolve_{}", rr_class(&got)));
            let want_ok = spec_tx_ok(t, &spent, |o| match eff.get(o) { Some(St::Live(d)) => Some(d.clone()), _ => None }, &w.hdr_ok);
            let desc = || json!({"stream": "seq", "index": ci, "seed": seed, "tx_number": k, "tx": tx_json(t), "already_spent": spent.iter().collect::<Vec<_>>(),
                "cells": w.cells.iter().map(|(o, s)| json!([o, match s { St::Live(Data::Raw(_)) => json!("live"), St::Live(Data::Group(l)) => json!({"live_group": l}), St::Dead => json!("dead") }])).collect::<Vec<_>>(),
                "overlay_cells": over.iter().map(|(o, s)| json!([o, match s { St::Live(_) => "live", St::Dead => "dead" }])).collect::<Vec<_>>(),
                "valid_headers": w.hdr_ok, "observed": format!("{:?}", got), "rule_says_accept": want_ok});
            match &got {
                None => sink.violation("resolve_transaction panicked", desc(), None),
                Some(RR::Ok(ins, ..)) => {
                    if !want_ok {
                        sink.violation("resolve_transaction accepted a transaction the liveness rules reject", desc(), None);
                    }
                    let want_seen: HashSet<OutPoint> = before.iter().cloned().chain(ins.iter().map(|o| ids.op(o))).collect();
                    if seen != want_seen {
                        sink.violation("seen_inputs after a successful resolve is not old set + inputs", desc(), None);
                    }
                    spent.extend(ins.iter().cloned());
                }
                Some(_) => {
                    if want_ok {
                        sink.violation("resolve_transaction rejected a transaction the liveness rules accept", desc(), None);
                    }
                    if seen != before {
                        sink.violation("a failed resolve changed seen_inputs", desc(), None);
                    }
                }
            }
            results.push(got);
        }
        sink.distinct.insert(format!("q{:?}{:?}", w.cells, txs));
        let coq = format!(
            "mkSeqCase {} {} {} {} {} {}",
            coq_list(&seen0, op_coq), cells_coq(&over), cells_coq(&w.cells),
            coq_list(&w.hdr_ok.iter().collect::<Vec<_>>(), |h| coq_n(10_000 + **h as u128)),
            coq_list(&txs, tx_coq), coq_list(&results, rr_coq)
        );
        sink.case(G_SEQ, coq, json!({"stream": "seq", "index": ci, "seed": seed, "seen_inputs": seen0,
            "txs": txs.iter().map(tx_json).collect::<Vec<_>>(), "observed": results.iter().map(|x| format!("{:?}", x)).collect::<Vec<_>>()}));
    }
}

// ---------------------------------------------------------------------------
// stream: blocks (BlockCellProvider + OverlayCellProvider + seen_inputs, the
// loop of chain/src/verify.rs resolve_block_transactions)
// ---------------------------------------------------------------------------
pub fn stream_block(seed: u64, n: u64, sink: &mut Sink) {
    let mut rng = stream_rng(seed, "block");
    for ci in 0..n {
        let mut r = rng.fork();
        if !sink.wanted("block", ci) {
            continue;
        }
        let mut w = gen_world(&mut r, false);
        let mut ids = Ids::new();
        for o in w.cells.keys() {
            ids.fake(o.0);
        }
        // transactions in creation order; later ones may use outputs of earlier ones
        let n_tx = r.range(1, 6) as usize;
        let mut specs: Vec<TxSpec> = Vec::new();
        let mut views: Vec<TransactionView> = Vec::new();
        let mut created: Vec<Op> = Vec::new();
        let quirk = r.chance(1, 8);
        for k in 0..n_tx {
            let mut t = if k == 0 && r.chance(2, 3) {
                TxSpec { inputs: vec![NULL], deps: vec![], hdeps: vec![], nwit: 1, outs: vec![Data::Raw(0)], salt: 0 }
            } else {
                gen_tx(&mut r, &w, &created, k as u64, false)
            };
            if !created.is_empty() && r.chance(1, 2) && !t.is_cellbase() {
                // spend / depend on something created in this block
                let o = *r.pick(&created);
                if r.chance(2, 3) { t.inputs[0] = o; } else { t.deps.push((o, false)); }
            }
            if !created.is_empty() && r.chance(1, 6) {
                // an output that is a dep group over cells created so far / store cells
                let l: Vec<Op> = (0..r.range(1, 2)).map(|_| *r.pick(&created)).collect();
                t.outs.push(Data::Group(l));
            }
            register_tx_ids(&t, &mut ids);
            let v = t.build(&mut ids);
            let id = 100 + k as u64;
            ids.add(id, v.hash());
            for (j, _) in t.outs.iter().enumerate() {
                created.push((id, j as u32));
            }
            // sometimes an index just past the outputs
            if r.chance(1, 10) {
                created.push((id, t.outs.len() as u32));
            }
            specs.push(t);
            views.push(v);
        }
        // a dep group in the store that lists cells created in this block
        if !created.is_empty() && (quirk || r.chance(1, 6)) {
            let l: Vec<Op> = (0..r.range(1, 2)).map(|_| *r.pick(&created)).collect();
            w.cells.insert((51, 0), St::Live(Data::Group(l)));
            ids.fake(51);
        }
        // block order
        let mut order: Vec<usize> = (0..n_tx).collect();
        let mut uses_51 = vec![];
        if w.cells.contains_key(&(51, 0)) {
            // a transaction depending on that group cannot be created before the cells it lists: it is
            // created last, and placed anywhere
            let t = TxSpec { inputs: vec![*w.cells.iter().find(|(o, s)| o.0 < 50 && matches!(s, St::Live(_))).map(|(o, _)| o).unwrap_or(&(1, 0))],
                             deps: vec![((51, 0), true)], hdeps: vec![], nwit: 0, outs: vec![Data::Raw(0)], salt: 77 };
            register_tx_ids(&t, &mut ids);
            let v = t.build(&mut ids);
            ids.add(100 + n_tx as u64, v.hash());
            specs.push(t);
            views.push(v);
            let pos = r.range(0, n_tx as u64) as usize;
            order.insert(pos, n_tx);
            uses_51.push(n_tx);
        }
        match r.below(10) {
            0 if order.len() >= 2 => { let a = r.below(order.len() as u64) as usize; let b = r.below(order.len() as u64) as usize; order.swap(a, b); }
            1 => order.reverse(),
            _ => {}
        }
        let (store, headers) = make_store(&w, &mut ids);
        let block = BlockBuilder::default().transactions(order.iter().map(|k| views[*k].clone())).build();

        // ---- the real code ------------------------------------------------
        let got: Option<Result<Vec<RR>, RR>> = {
            let res = std::panic::catch_unwind(std::panic::AssertUnwindSafe(|| -> Result<Vec<ResolvedTransaction>, OutPointError> {
                let mut seen_inputs = HashSet::new();
                let block_cp = match BlockCellProvider::new(&block) {
                    Ok(p) => p,
                    Err(e) => return Err(e.downcast_ref::<OutPointError>().expect("OutPointError").clone()),
                };
                let cell_provider = OverlayCellProvider::new(&block_cp, &store);
                block.transactions().iter().cloned().map(|tx| resolve_transaction(tx, &mut seen_inputs, &cell_provider, &headers)).collect()
            }));
            match res {
                Err(_) => None,
                Ok(Ok(v)) => Some(Ok(v.iter().map(|x| classify_ok(x, &ids)).collect())),
                Ok(Err(e)) => Some(Err(classify_err(&e, &ids))),
            }
        };
        sink.evaluations += 1;
        sink.count(&format!("block_{}", match &got { None => "panic", Some(Ok(_)) => "ok", Some(Err(e)) => rr_class(&Some(e.clone())) }));

        // ---- the rule: every input / dep is live in the store or created by an EARLIER
        //      transaction of the block, and not spent by an earlier one -----------------
        let id_of = |k: usize| 100 + k as u64;
        let mut spent: HashSet<Op> = HashSet::new();
        let mut ok = true;
        let mut ok_if_later_members_allowed = true;
        for (pos, k) in order.iter().enumerate() {
            let t = &specs[*k];
            let live_at = |o: &Op, any_position: bool| -> Option<Data> {
                if o.0 >= 100 {
                    let kk = (o.0 - 100) as usize;
                    let p = order.iter().position(|x| *x == kk)?;
                    if p < pos || (any_position && !t.inputs.contains(o) && !t.deps.iter().any(|d| d.0 == *o)) {
                        specs[kk].outs.get(o.1 as usize).cloned()
                    } else {
                        None
                    }
                } else {
                    match w.cells.get(o) { Some(St::Live(d)) => Some(d.clone()), _ => None }
                }
            };
            if !spec_tx_ok(t, &spent, |o| live_at(o, false), &w.hdr_ok) { ok = false; }
            if !spec_tx_ok(t, &spent, |o| live_at(o, true), &w.hdr_ok) { ok_if_later_members_allowed = false; }
            if !t.is_cellbase() { spent.extend(t.inputs.iter().cloned()); }
        }
        let desc = json!({"stream": "block", "index": ci, "seed": seed,
            "block": order.iter().map(|k| json!({"tx_id": id_of(*k), "tx": tx_json(&specs[*k])})).collect::<Vec<_>>(),
            "cells": w.cells.iter().map(|(o, s)| json!([o, match s { St::Live(Data::Raw(_)) => json!("live"), St::Live(Data::Group(l)) => json!({"live_group": l}), St::Dead => json!("dead") }])).collect::<Vec<_>>(),
            "valid_headers": w.hdr_ok, "observed": format!("{:?}", got), "rule_says_accept": ok});
        match &got {
            None => sink.violation("resolving a block panicked", desc.clone(), None),
            Some(Ok(_)) if !ok => {
                let sig = if ok_if_later_members_allowed { Some("dep-group-member-created-later-in-block") } else { None };
                sink.violation("a block was resolved although a transaction uses a cell that is not live before it (in the store or created by an earlier transaction)", desc.clone(), sig);
            }
            Some(Err(_)) if ok => sink.violation("a block was rejected although every input and dep is live and unspent at its position", desc.clone(), None),
            _ => {}
        }
        if let Some(Ok(v)) = &got {
            // all inputs of the block pairwise distinct
            let mut all = HashSet::new();
            for rr in v {
                if let RR::Ok(ins, ..) = rr {
                    for i in ins {
                        if !all.insert(*i) {
                            sink.violation("two inputs of a resolved block refer to the same cell", desc.clone(), None);
                        }
                    }
                }
            }
        }
        sink.distinct.insert(format!("b{:?}{:?}{:?}", w.cells, specs, order));
        let block_coq = coq_list(&order, |k| format!("mkBtx {} {} {}", coq_n(id_of(*k) as u128), tx_coq(&specs[*k]), coq_list(&specs[*k].outs, data_coq)));
        let got_coq = match &got {
            None => "None".to_string(),
            Some(Ok(v)) => format!("(Some (Ok {}))", coq_list(v, |x| match x { RR::Ok(a, b, c) => rtx_coq(a, b, c), _ => unreachable!() })),
            Some(Err(e)) => format!("(Some (Err {}))", err_coq(e)),
        };
        let coq = format!("mkBlockCase {} {} {} {}", cells_coq(&w.cells), coq_list(&w.hdr_ok.iter().collect::<Vec<_>>(), |h| coq_n(10_000 + **h as u128)), block_coq, got_coq);
        let mut d = desc;
        if !ok && ok_if_later_members_allowed && matches!(got, Some(Ok(_))) {
            d["known_signature"] = json!("dep-group-member-created-later-in-block");
        }
        sink.case(G_BLOCK, coq, d);
    }
}

// ---------------------------------------------------------------------------
// stream: history independence — the same transaction against the same
// provider and the same set of spent cells, reached by two different histories
// ---------------------------------------------------------------------------
pub fn stream_history(seed: u64, n: u64, sink: &mut Sink) {
    let mut rng = stream_rng(seed, "history");
    for ci in 0..n {
        let mut r = rng.fork();
        if !sink.wanted("history", ci) {
            continue;
        }
        let w = gen_world(&mut r, false);
        let live: Vec<Op> = w.cells.iter().filter(|(o, s)| o.0 < 50 && matches!(s, St::Live(_))).map(|(o, _)| *o).collect();
        if live.len() < 2 {
            continue;
        }
        // the cells spent before the transaction under test
        let mut s: Vec<Op> = live.iter().filter(|_| r.chance(1, 2)).cloned().collect();
        let target = gen_tx(&mut r, &w, &[], 9, false);
        let mut outcomes = Vec::new();
        for hist in 0..2 {
            // partition S into spending transactions, differently per history
            let mut ids = Ids::new();
            let (store, headers) = make_store(&w, &mut ids);
            register_tx_ids(&target, &mut ids);
            if hist == 1 { s.reverse(); }
            let mut seen: HashSet<OutPoint> = HashSet::new();
            let mut i = 0;
            while i < s.len() {
                let k = std::cmp::min(s.len() - i, if hist == 0 { 1 } else { r.range(1, 3) as usize });
                let t = TxSpec { inputs: s[i..i + k].to_vec(), deps: vec![], hdeps: vec![], nwit: 0, outs: vec![Data::Raw(0)], salt: i as u64 };
                let v = t.build(&mut ids);
                let _ = resolve_transaction(v, &mut seen, &store, &headers);
                i += k;
            }
            let view = target.build(&mut ids);
            let got = match std::panic::catch_unwind(std::panic::AssertUnwindSafe(|| resolve_transaction(view, &mut seen, &store, &headers))) {
                Err(_) => None,
                Ok(Ok(rtx)) => Some(classify_ok(&rtx, &ids)),
                Ok(Err(e)) => Some(classify_err(&e, &ids)),
            };
            let mut seen_ops: Vec<Op> = seen.iter().map(|o| ids.un(o)).collect();
            seen_ops.sort();
            outcomes.push((got, seen_ops));
        }
        sink.evaluations += 2;
        sink.count("history_pairs");
        if outcomes[0] != outcomes[1] {
            sink.violation("the verdict of resolve_transaction depends on the history that produced the same spent set",
                json!({"stream": "history", "index": ci, "seed": seed, "tx": tx_json(&target), "spent": s,
                       "history_one_by_one": format!("{:?}", outcomes[0]), "history_grouped_reversed": format!("{:?}", outcomes[1])}), None);
        }
    }
}
