//! "The verdict depends only on the transaction and the chain context, never on how the node arrived at
//! that context": a real ChainDB that reached a main chain through attach / detach / attach sequences (as
//! chain/src/verify.rs does on a reorganisation: rollback newest-first with detach_block +
//! detach_block_cell, then attach_block_cell + attach_block) and a fresh ChainDB that attached only that
//! main chain must hand the verifiers identical cell metas, and MaturityVerifier / SinceVerifier must
//! give identical verdicts on transactions spending those cells.  Property predicate only (the model of
//! attach / detach is C02's Chain/Store.v).
use crate::Sink;
use ckb_chain_spec::consensus::ConsensusBuilder;
use ckb_db::RocksDB;
use ckb_db_schema::COLUMNS;
use ckb_store::{attach_block_cell, detach_block_cell, ChainDB, ChainStore};
use ckb_types::{
    bytes::Bytes,
    core::{
        cell::{CellMeta, ResolvedTransaction},
        BlockBuilder, BlockView, Capacity, EpochNumberWithFraction, HeaderBuilder, TransactionBuilder, TransactionView,
    },
    packed::{Byte32, CellInput, CellOutput, OutPoint},
    prelude::*,
};
use ckb_verification::MaturityVerifier;
use hx_common::*;
use serde_json::json;
use std::sync::Arc;

fn out(cap: u64) -> CellOutput {
    CellOutput::new_builder().capacity(Capacity::shannons(cap)).build()
}

/// a block on `parent` with a cellbase and transactions spending the given live out points
fn block_on(parent: &BlockView, epoch: EpochNumberWithFraction, spends: &[Vec<OutPoint>], salt: u64) -> BlockView {
    let number = parent.number() + 1;
    let cellbase = TransactionBuilder::default()
        .input(CellInput::new_cellbase_input(number))
        .output(out(1000 + salt))
        .output_data(Bytes::new().pack())
        .witness(Bytes::from(salt.to_le_bytes().to_vec()).pack())
        .build();
    let mut txs = vec![cellbase];
    for (k, ins) in spends.iter().enumerate() {
        let mut b = TransactionBuilder::default();
        for op in ins {
            b = b.input(CellInput::new(op.clone(), 0));
        }
        // two outputs, the second with data, so that output index != transaction index happens
        b = b.output(out(500 + k as u64)).output_data(Bytes::new().pack()).output(out(700 + salt)).output_data(Bytes::from(vec![salt as u8; 3]).pack());
        txs.push(b.build());
    }
    let header = HeaderBuilder::default().number(number).parent_hash(parent.hash()).epoch(epoch).timestamp(parent.timestamp() + 1000 + salt).build();
    BlockBuilder::default().header(header).transactions(txs).build_unchecked()
}

fn open() -> (ChainDB, std::path::PathBuf) {
    let dir = scratch_dir("C04").join(format!("st{}", RocksDirCounter::next()));
    std::fs::create_dir_all(&dir).unwrap();
    (ChainDB::new(RocksDB::open_in(&dir, COLUMNS), Default::default()), dir)
}
struct RocksDirCounter;
impl RocksDirCounter {
    fn next() -> u64 {
        static N: std::sync::atomic::AtomicU64 = std::sync::atomic::AtomicU64::new(0);
        N.fetch_add(1, std::sync::atomic::Ordering::SeqCst)
    }
}

fn attach(store: &ChainDB, b: &BlockView) {
    let txn = store.begin_transaction();
    txn.insert_block(b).unwrap();
    txn.attach_block(b).unwrap();
    attach_block_cell(&txn, b).unwrap();
    txn.commit().unwrap();
}
fn detach(store: &ChainDB, b: &BlockView) {
    let txn = store.begin_transaction();
    txn.detach_block(b).unwrap();
    detach_block_cell(&txn, b).unwrap();
    txn.commit().unwrap();
}

fn meta_str(m: &Option<CellMeta>) -> String {
    match m {
        None => "none".into(),
        Some(m) => format!("{}|{:?}|{}", hex(m.cell_output.as_slice()), m.transaction_info.as_ref().map(|i| (hex(i.block_hash.as_slice()), i.block_number, i.block_epoch.full_value(), i.index)), m.data_bytes),
    }
}

pub fn stream_store_history(seed: u64, n: u64, sink: &mut Sink) {
    let mut rng = crate::stream_rng(seed, "storehist");
    let consensus = ConsensusBuilder::default().cellbase_maturity(EpochNumberWithFraction::new(1, 0, 1)).build();
    let genesis = consensus.genesis_block().clone();
    for ci in 0..n {
        let epoch_len = rng.range(2, 5);
        let epoch_of = |number: u64| EpochNumberWithFraction::new(number / epoch_len, number % epoch_len, epoch_len);
        // live out points known to the generator, per chain tip hash
        let mut salt = ci * 100;
        let mut next = |parent: &BlockView, live: &mut Vec<OutPoint>, rng: &mut Rng, salt: &mut u64| -> BlockView {
            *salt += 1;
            let mut spends = vec![];
            let ntx = rng.below(3);
            for _ in 0..ntx {
                if live.is_empty() { break; }
                let k = std::cmp::min(live.len() as u64, rng.range(1, 2)) as usize;
                let mut ins = vec![];
                for _ in 0..k { let i = rng.below(live.len() as u64) as usize; ins.push(live.swap_remove(i)); }
                spends.push(ins);
            }
            let b = block_on(parent, epoch_of(parent.number() + 1), &spends, *salt);
            for tx in b.transactions() {
                for (i, _) in tx.outputs().into_iter().enumerate() { live.push(OutPoint::new(tx.hash(), i as u32)); }
            }
            b
        };
        // main chain 1
        let len1 = rng.range(3, 9);
        let mut chain1 = vec![];
        let mut live1: Vec<OutPoint> = vec![];
        let mut lives_at: Vec<Vec<OutPoint>> = vec![vec![]]; // live set after each height of chain 1
        let mut tip = genesis.clone();
        for _ in 0..len1 {
            let b = next(&tip, &mut live1, &mut rng, &mut salt);
            tip = b.clone();
            chain1.push(b);
            lives_at.push(live1.clone());
        }
        // fork point and the branch that takes over
        let fork = rng.range(0, len1 - 1) as usize; // blocks chain1[..fork] stay
        let mut live2 = lives_at[fork].clone();
        let mut chain2: Vec<BlockView> = chain1[..fork].to_vec();
        let mut tip2 = if fork == 0 { genesis.clone() } else { chain1[fork - 1].clone() };
        let len2 = rng.range(1, 6);
        for _ in 0..len2 {
            let b = next(&tip2, &mut live2, &mut rng, &mut salt);
            tip2 = b.clone();
            chain2.push(b);
        }
        let desc = json!({"stream": "storehist", "index": ci, "seed": seed, "epoch_length": epoch_len, "chain1": len1, "fork_after_height": fork, "new_branch": len2});
        sink.evaluations += 1;
        *sink.stats.entry("storehist_cases".into()).or_default() += 1;
        let r = crate::guarded(std::panic::AssertUnwindSafe(|| {
            // store A: chain 1, rollback newest-first, then the new branch; store B: the final chain only
            let (a, da) = open();
            let (b, db) = open();
            for s in [&a, &b] { attach(s, &genesis); }
            for blk in &chain1 { attach(&a, blk); }
            for blk in chain1[fork..].iter().rev() { detach(&a, blk); }
            for blk in &chain2[fork..] { attach(&a, blk); }
            for blk in &chain2 { attach(&b, blk); }
            let mut bad = vec![];
            for op in &live2 {
                let (ma, mb) = (a.get_cell(op), b.get_cell(op));
                if meta_str(&ma) != meta_str(&mb) {
                    bad.push(format!("cell {op}: after the reorganisation {} / fresh {}", meta_str(&ma), meta_str(&mb)));
                    continue;
                }
                // maturity verdict of a transaction spending it, at the next block's epoch and one epoch later
                if let (Some(ma), Some(mb)) = (ma, mb) {
                    let tx: TransactionView = TransactionBuilder::default().input(CellInput::new(op.clone(), 0)).output(out(1)).output_data(Bytes::new().pack()).build();
                    for e in [epoch_of(tip2.number() + 1), epoch_of(tip2.number() + 1 + epoch_len)] {
                        let va = MaturityVerifier::new(Arc::new(ResolvedTransaction { transaction: tx.clone(), resolved_cell_deps: vec![], resolved_inputs: vec![ma.clone()], resolved_dep_groups: vec![] }), e, consensus.cellbase_maturity()).verify().is_ok();
                        let vb = MaturityVerifier::new(Arc::new(ResolvedTransaction { transaction: tx.clone(), resolved_cell_deps: vec![], resolved_inputs: vec![mb.clone()], resolved_dep_groups: vec![] }), e, consensus.cellbase_maturity()).verify().is_ok();
                        if va != vb { bad.push(format!("maturity verdict for a spend of {op} differs: {va} / {vb}")); }
                    }
                }
            }
            // cells spent on the final chain must be dead in both
            for op in lives_at[fork].iter().filter(|o| !live2.contains(o)) {
                if a.get_cell(op).is_some() != b.get_cell(op).is_some() { bad.push(format!("cell {op} live in one store only")); }
            }
            drop(a); drop(b);
            let _ = std::fs::remove_dir_all(da); let _ = std::fs::remove_dir_all(db);
            bad
        }));
        match r {
            None => sink.violation("panic in attach / detach on a real ChainDB", desc.clone(), None),
            Some(bad) => {
                if let Some(first) = bad.first() {
                    sink.violation(&format!("a store that went through a reorganisation hands the verifiers something else than a store that only attached the same main chain: {first}"), json!({"case": desc, "differences": bad.len()}), None);
                }
            }
        }
        if (sink.samples.len() as u64) < 8 && ci == 0 { sink.samples.push(desc); }
    }
    let _ = Byte32::zero();
}
