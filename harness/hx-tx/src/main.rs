//! C04 correspondence harness: runs the REAL transaction verifiers of /repo
//! (Since decoding, SinceVerifier, MaturityVerifier,
//! TimeRelativeTransactionVerifier, CapacityVerifier, resolve_transaction,
//! BlockCellProvider + OverlayCellProvider) on generated (context, tx) pairs,
//! evaluates the property predicate (written from the property text / RFC-17,
//! independent of the Coq model) on the implementation's answers, and writes
//! the same inputs with the observed answers as Coq cases for the models of
//! coq/Tx/*.v to recompute.
mod cap;
mod recheck;
mod resolve;
mod storehist;
mod time;

use hx_common::*;
use serde_json::{json, Value};
use std::collections::{BTreeMap, BTreeSet};
use std::fs;

pub const SHARDS: usize = 16;
pub const G_TIME: usize = 0;
pub const G_SINCE: usize = 1;
pub const G_CAP: usize = 2;
pub const G_SEQ: usize = 3;
pub const G_BLOCK: usize = 4;
pub const G_RECHECK: usize = 5;
const GROUP_NAMES: [&str; 6] = ["time", "since", "cap", "seq", "block", "recheck"];

pub struct Sink {
    pub files: Vec<CaseFile>,
    pub descs: Vec<BTreeMap<String, Vec<Value>>>,
    pub viol: Vec<Value>,
    pub stats: BTreeMap<String, u64>,
    pub samples: Vec<Value>,
    pub distinct: BTreeSet<String>,
    pub evaluations: u64,
    counters: [usize; 6],
    /// replay mode: (stream, index) of the only case whose outcome is printed
    pub only: Option<(String, u64)>,
    pub replay_failed: bool,
}

impl Sink {
    fn new(out: &std::path::Path, only: Option<(String, u64)>) -> Self {
        let header = "From CKB Require Import Tx.Cases.\nLocal Open Scope N_scope.";
        let files = (0..SHARDS)
            .map(|i| {
                let mut cf = CaseFile::new(out, &format!("cases_{:02}", i), header);
                cf.group("time", "time_case", "check_time");
                cf.group("since", "since_case", "check_since_decode");
                cf.group("cap", "cap_case", "check_cap");
                cf.group("seq", "seq_case", "check_seq");
                cf.group("block", "block_case", "check_block");
                cf.group("recheck", "recheck_case", "check_recheck_case");
                cf
            })
            .collect();
        Sink {
            files,
            descs: (0..SHARDS).map(|_| BTreeMap::new()).collect(),
            viol: vec![],
            stats: BTreeMap::new(),
            samples: vec![],
            distinct: BTreeSet::new(),
            evaluations: 0,
            counters: [0; 6],
            only,
            replay_failed: false,
        }
    }
    pub fn count(&mut self, key: &str) {
        *self.stats.entry(key.to_string()).or_default() += 1;
    }
    pub fn count_n(&mut self, key: &str, n: u64) {
        *self.stats.entry(key.to_string()).or_default() += n;
    }
    /// is this (stream, index) wanted? (always, unless replaying one case)
    pub fn wanted(&self, stream: &str, idx: u64) -> bool {
        match &self.only {
            None => true,
            Some((s, i)) => s == stream && *i == idx,
        }
    }
    pub fn case(&mut self, group: usize, coq: String, desc: Value) {
        if self.only.is_some() {
            println!("replayed case: {}", desc);
            return;
        }
        let sh = self.counters[group] % SHARDS;
        self.counters[group] += 1;
        self.files[sh].push(group, coq);
        self.descs[sh]
            .entry(GROUP_NAMES[group].to_string())
            .or_default()
            .push(desc.clone());
        if self.samples.len() < 3 && (group == G_TIME || group == G_BLOCK || group == G_CAP) && self.counters[group] == 2 {
            self.samples.push(desc);
        }
    }
    pub fn violation(&mut self, what: &str, detail: Value, signature: Option<&str>) {
        if self.only.is_some() {
            println!("PROPERTY VIOLATED: {} :: {}", what, detail);
            self.replay_failed = true;
        }
        let mut v = json!({"what": what, "detail": detail});
        if let Some(s) = signature {
            v["signature"] = json!(s);
        }
        self.viol.push(v);
    }
}

/// run a closure on the real code, catching panics
pub fn guarded<T, F: FnOnce() -> T + std::panic::UnwindSafe>(f: F) -> Option<T> {
    std::panic::catch_unwind(f).ok()
}

pub fn stream_rng(seed: u64, stream: &str) -> Rng {
    let mut h: u64 = 0xcbf29ce484222325;
    for b in stream.bytes() {
        h = (h ^ b as u64).wrapping_mul(0x100000001b3);
    }
    Rng::new(seed ^ h)
}

fn main() {
    // panics of the code under test are caught and reported; keep stderr quiet
    if std::env::var("HX_DEBUG").is_err() {
        std::panic::set_hook(Box::new(|_| {}));
    }
    let seed = seed();
    let thorough = tier_is_thorough();
    let out = out_dir("C04");
    let mut only = None;
    if let Ok(p) = std::env::var("HX_REPLAY") {
        let v: Value = serde_json::from_str(&fs::read_to_string(&p).unwrap()).unwrap();
        let case = if let Some(vs) = v.get("violations") {
            vs[0]["detail"].clone()
        } else {
            v["cases"][0]["case"].clone()
        };
        let stream = case["stream"].as_str().unwrap_or("").to_string();
        let idx = case["index"].as_u64().unwrap_or(0);
        println!("replaying stream={} index={} seed={}", stream, idx, case["seed"].as_u64().unwrap_or(seed));
        only = Some((stream, idx));
    } else {
        for e in fs::read_dir(&out).unwrap().flatten() {
            let n = e.file_name().to_string_lossy().to_string();
            if n.starts_with("cases_") || n == "summary.json" {
                let _ = fs::remove_file(e.path());
            }
        }
    }
    let mut sink = Sink::new(&out, only.clone());
    let k = if thorough { 4 } else { 1 };

    time::stream_since_decode(seed, thorough, &mut sink);
    time::stream_time(seed, 160 * k, &mut sink);
    cap::stream_capacity(seed, 1500 * k, &mut sink);
    resolve::stream_seq(seed, 500 * k, &mut sink);
    resolve::stream_block(seed, 500 * k, &mut sink);
    resolve::stream_history(seed, 300 * k, &mut sink);
    storehist::stream_store_history(seed, 60 * k, &mut sink);
    // sets the process-wide SYSTEM_CELL map: after everything else
    recheck::stream_recheck(seed, 1500 * k, &mut sink);

    if only.is_some() {
        std::process::exit(if sink.replay_failed { 1 } else { 0 });
    }
    for (i, cf) in sink.files.iter().enumerate() {
        cf.write().unwrap();
        fs::write(out.join(format!("cases_{:02}.json", i)), serde_json::to_string(&sink.descs[i]).unwrap()).unwrap();
    }
    let summary = json!({
        "property": "C04",
        "seed": seed,
        "evaluations": sink.evaluations,
        "distinct_nontrivial": sink.distinct.len(),
        "rule": "one evaluation = one run of a real verifier / resolver on a generated (context, tx); distinct = distinct rendered inputs; non-trivial = at least one input or dep",
        "distribution": sink.stats,
        "samples": sink.samples,
        "impl_violations": sink.viol,
    });
    fs::write(out.join("summary.json"), serde_json::to_string_pretty(&summary).unwrap()).unwrap();
    println!("hx-tx: {} evaluations, {} implementation-side violations", sink.evaluations, sink.viol.len());
}
