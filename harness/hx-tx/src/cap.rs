//! CapacityVerifier on generated resolved transactions.
use crate::*;
use ckb_error::{Error, ErrorKind, InternalError, InternalErrorKind};
use ckb_types::{
    bytes::Bytes,
    core::{
        cell::{CellMetaBuilder, ResolvedTransaction},
        ScriptHashType, TransactionBuilder,
    },
    packed::{Byte32, CellInput, CellOutput, OutPoint, Script},
    prelude::*,
};
use ckb_verification::{CapacityVerifier, TransactionError};
use std::sync::Arc;

const BYTE: u128 = 100_000_000;

#[derive(Clone, Debug)]
struct Scr {
    hash_type: u8, // 0 data, 1 type, 2 data1, 4 data2
    code: u64,     // code hash id
    args: usize,
}
#[derive(Clone, Debug)]
struct Out {
    capacity: u64,
    lock: Scr,
    type_: Option<Scr>,
    data: usize,
}

fn code_hash(id: u64) -> Byte32 {
    let mut b = [0xC0u8; 32];
    b[..8].copy_from_slice(&id.to_le_bytes());
    Byte32::from_slice(&b).unwrap()
}
fn script(s: &Scr) -> Script {
    let ht = match s.hash_type {
        0 => ScriptHashType::Data,
        1 => ScriptHashType::Type,
        2 => ScriptHashType::Data1,
        _ => ScriptHashType::Data2,
    };
    Script::new_builder().code_hash(code_hash(s.code)).hash_type(ht).args(Bytes::from(vec![7u8; s.args])).build()
}
fn output(o: &Out) -> CellOutput {
    let b = CellOutput::new_builder().capacity(o.capacity).lock(script(&o.lock));
    match &o.type_ {
        Some(t) => b.type_(Some(script(t))).build(),
        None => b.build(),
    }
}
fn occupied(o: &Out) -> u128 {
    let s = |x: &Scr| (x.args as u128 + 33) * BYTE;
    8 * BYTE + o.data as u128 * BYTE + s(&o.lock) + o.type_.as_ref().map(s).unwrap_or(0)
}
fn scr_coq(s: &Scr) -> String {
    format!("(mkScript {} {} {})", coq_n(s.hash_type as u128), coq_n(s.code as u128), coq_n(s.args as u128))
}
fn out_coq(o: &Out) -> String {
    format!("(mkOutput {} {} {} {})", coq_n(o.capacity as u128), scr_coq(&o.lock), coq_option(&o.type_, scr_coq), coq_n(o.data as u128))
}
fn out_json(o: &Out) -> Value {
    json!({"capacity": o.capacity.to_string(), "lock_args": o.lock.args, "data_len": o.data,
           "type": o.type_.as_ref().map(|t| json!({"hash_type": t.hash_type, "code": t.code, "args": t.args}))})
}

#[derive(Debug, PartialEq, Eq, Clone, Copy)]
enum CV {
    Ok,
    SumOverflow,
    Insufficient(u64),
    Overflow,
    Other,
}
fn classify(r: Result<(), Error>) -> CV {
    match r {
        Ok(()) => CV::Ok,
        Err(e) => {
            if let Some(t) = e.downcast_ref::<TransactionError>() {
                match t {
                    TransactionError::OutputsSumOverflow { .. } => CV::SumOverflow,
                    TransactionError::InsufficientCellCapacity { index, .. } => CV::Insufficient(*index as u64),
                    _ => CV::Other,
                }
            } else if e.kind() == ErrorKind::Internal
                && e.downcast_ref::<InternalError>().map(|i| i.kind() == InternalErrorKind::CapacityOverflow).unwrap_or(false)
            {
                CV::Overflow
            } else {
                CV::Other
            }
        }
    }
}

fn gen_scr(r: &mut Rng, dao: u64, aim_dao: bool) -> Scr {
    if aim_dao {
        // near misses of "uses the DAO type script": right hash with the wrong hash type, wrong hash
        match r.below(4) {
            0 => Scr { hash_type: 1, code: dao, args: r.below(3) as usize },
            1 => Scr { hash_type: *r.pick(&[0u8, 2, 4]), code: dao, args: 0 },
            2 => Scr { hash_type: 1, code: dao + 1, args: 0 },
            _ => Scr { hash_type: 1, code: dao, args: 20 },
        }
    } else {
        Scr { hash_type: *r.pick(&[0u8, 1, 2, 4]), code: r.range(1, 5), args: *r.pick(&[0usize, 1, 20, 32, 33]) }
    }
}

pub fn stream_capacity(seed: u64, n: u64, sink: &mut Sink) {
    let mut rng = stream_rng(seed, "cap");
    let dao: u64 = 99;
    for ci in 0..n {
        let mut r = rng.fork();
        if !sink.wanted("cap", ci) {
            continue;
        }
        let n_out = r.below(4) as usize;
        let bad = if n_out > 0 && r.chance(1, 3) { Some(r.below(n_out as u64) as usize) } else { None };
        let mut outs: Vec<Out> = Vec::new();
        for k in 0..n_out {
            let lock = gen_scr(&mut r, dao, false);
            let aim = r.chance(1, 4);
            let type_ = if r.chance(1, 3) { Some(gen_scr(&mut r, dao, aim)) } else { None };
            let data = *r.pick(&[0usize, 0, 1, 8, 61]);
            let mut o = Out { capacity: 0, lock, type_, data };
            let occ = occupied(&o) as u64;
            o.capacity = if Some(k) == bad {
                *r.pick(&[occ - 1, occ - 1, 0, occ / 2])
            } else {
                let extra = r.below(1000) * BYTE as u64;
                *r.pick(&[occ, occ, occ + 1, occ + extra])
            };
            if r.chance(1, 60) {
                o.capacity = u64::MAX - r.below(3); // drives the sums to the u64 boundary
            }
            outs.push(o);
        }
        let out_sum: u128 = outs.iter().map(|o| o.capacity as u128).sum();
        let n_in = if r.chance(1, 12) { 0 } else { r.range(1, 3) as usize };
        let dao_in = r.chance(1, 6);
        let mut ins: Vec<Out> = Vec::new();
        // aim the input sum at the output sum: equal, one less, one more
        let target: u128 = match r.below(6) {
            0 => out_sum.saturating_sub(1),
            1 | 2 => out_sum,
            3 => out_sum + 1,
            4 => out_sum + r.below(5000) as u128,
            _ => u64::MAX as u128 + r.below(3) as u128, // inputs sum around 2^64
        };
        let mut left = target;
        for k in 0..n_in {
            let c = if k + 1 == n_in { left } else { std::cmp::min(left, r.below(2) as u128 * (left / 2)) };
            let c = std::cmp::min(c, u64::MAX as u128) as u64;
            left -= c as u128;
            let type_ = if dao_in && k == 0 { Some(gen_scr(&mut r, dao, true)) } else if r.chance(1, 5) { Some(gen_scr(&mut r, dao, false)) } else { None };
            ins.push(Out { capacity: c, lock: gen_scr(&mut r, dao, false), type_, data: r.below(3) as usize });
        }
        if left > 0 && n_in > 0 && r.chance(1, 2) {
            // the remainder did not fit into one u64: add it as another input (sum overflows u64)
            ins.push(Out { capacity: std::cmp::min(left, u64::MAX as u128) as u64, lock: gen_scr(&mut r, dao, false), type_: None, data: 0 });
        }

        // ---- the real verifier --------------------------------------------
        let tx = TransactionBuilder::default()
            .inputs((0..ins.len()).map(|k| CellInput::new(OutPoint::new(Byte32::zero(), k as u32), 0)))
            .outputs(outs.iter().map(output))
            .outputs_data(outs.iter().map(|o| Bytes::from(vec![1u8; o.data]).pack()))
            .build();
        let rtx = Arc::new(ResolvedTransaction {
            transaction: tx,
            resolved_inputs: ins
                .iter()
                .enumerate()
                .map(|(k, o)| CellMetaBuilder::from_cell_output(output(o), Bytes::from(vec![2u8; o.data])).out_point(OutPoint::new(Byte32::zero(), k as u32)).build())
                .collect(),
            resolved_cell_deps: vec![],
            resolved_dep_groups: vec![],
        });
        let dao_hash = code_hash(dao);
        let got = guarded(move || classify(CapacityVerifier::new(rtx, dao_hash).verify()));
        sink.evaluations += 1;

        // ---- the rule, from the property text -------------------------------
        let is_dao = |o: &Out| o.type_.as_ref().map(|t| t.hash_type == 1 && t.code == dao).unwrap_or(false);
        let in_sum: u128 = ins.iter().map(|o| o.capacity as u128).sum();
        let exempt = ins.is_empty() || ins.iter().any(is_dao);
        let want = if !exempt && (in_sum > u64::MAX as u128 || out_sum > u64::MAX as u128) {
            CV::Overflow
        } else if !exempt && in_sum < out_sum {
            CV::SumOverflow
        } else if let Some(k) = outs.iter().position(|o| (o.capacity as u128) < occupied(o)) {
            CV::Insufficient(k as u64)
        } else {
            CV::Ok
        };
        let desc = json!({"stream": "cap", "index": ci, "seed": seed, "dao_code": dao,
            "inputs": ins.iter().map(out_json).collect::<Vec<_>>(), "outputs": outs.iter().map(out_json).collect::<Vec<_>>(),
            "inputs_sum": in_sum.to_string(), "outputs_sum": out_sum.to_string(),
            "observed": format!("{:?}", got), "rule_says": format!("{:?}", want)});
        match got {
            None => sink.violation("CapacityVerifier panicked", desc.clone(), None),
            Some(g) if g != want => sink.violation("CapacityVerifier disagrees with the capacity rules", desc.clone(), None),
            _ => {}
        }
        sink.count(&format!("cap_verdict_{}", match got { Some(CV::Ok) => "ok", Some(CV::SumOverflow) => "outputs_sum_overflow", Some(CV::Insufficient(_)) => "insufficient", Some(CV::Overflow) => "u64_overflow", None => "panic", _ => "other" }));
        if exempt { sink.count("cap_sum_exempt"); }
        if in_sum == out_sum && !exempt { sink.count("cap_sum_exactly_equal"); }
        let got_coq = match got {
            None | Some(CV::Other) => "None".to_string(),
            Some(CV::Ok) => "(Some COk)".into(),
            Some(CV::SumOverflow) => "(Some COutputsSumOverflow)".into(),
            Some(CV::Insufficient(i)) => format!("(Some (CInsufficient {}))", coq_n(i as u128)),
            Some(CV::Overflow) => "(Some COverflow)".into(),
        };
        sink.distinct.insert(format!("c{:?}{:?}", ins, outs));
        sink.case(G_CAP, format!("mkCapCase {} {} {} {}", coq_n(dao as u128), coq_list(&ins, out_coq), coq_list(&outs, out_coq), got_coq), desc);
    }
}
