//! Skip list: get_skip_height, build_skip / get_ancestor of HeaderIndexView,
//! ActiveChain::get_locator.
use crate::*;
use ckb_shared::types::{verif_get_skip_height, HeaderIndexView};
use ckb_types::{core::EpochNumberWithFraction, packed::Byte32, BlockNumberAndHash, U256};

fn skip_spec(h: u64) -> u64 {
    // written from the comment in the code: "turn the lowest 1 bit into 0"
    fn clear(n: u64) -> u64 {
        if n == 0 { 0 } else { n & (n - 1) }
    }
    if h < 2 {
        0
    } else if h & 1 == 1 {
        clear(clear(h - 1)) + 1
    } else {
        clear(h)
    }
}

fn one_height(cx: &mut Ctx, h: u64, to_coq: bool) {
    let r = std::panic::catch_unwind(|| verif_get_skip_height(h)).ok();
    cx.count("skip_height_values");
    if h < (1u64 << 63) {
        match r {
            None => cx.violation("get_skip_height panics below 2^63".into(), json!({"case": {"structure": "skip_height", "height": h}})),
            Some(s) => {
                if (h > 0 && s >= h) || s != skip_spec(h) {
                    cx.violation("get_skip_height is not the height with the lowest one bit(s) cleared / not below the height".into(),
                                 json!({"case": {"structure": "skip_height", "height": h}, "got": s, "expected": skip_spec(h)}));
                }
            }
        }
    }
    if to_coq {
        cx.case(G_SKIPH, format!("({}, {})", coq_n(h as u128), coq_option(&r, |x| coq_n(*x as u128))), json!({"structure": "skip_height", "height": h, "observed": r}));
    }
}

pub fn run(cx: &mut Ctx) {
    run_heights(cx);
    run_ancestors(cx);
}

#[derive(Clone)]
struct Tree {
    /// index i = hash id i+1; (number, parent index or usize::MAX for the root)
    nodes: Vec<(u64, usize)>,
    /// stored main branch: number -> node index, numbers 0..=tip
    main: Vec<usize>,
    tip: u64,
    views: Vec<HeaderIndexView>,
}
fn hid(i: usize) -> Byte32 {
    crate::orphan::hash_of(i as u64 + 1)
}
fn idx_of(h: &Byte32) -> usize {
    crate::orphan::id_of(h) as usize - 1
}
fn strip(v: &HeaderIndexView) -> HeaderIndexView {
    HeaderIndexView::new(v.hash(), v.number(), v.epoch(), v.timestamp(), v.parent_hash(), v.total_difficulty().clone())
}
impl Tree {
    fn in_store(&self, i: usize) -> bool {
        let n = self.nodes[i].0;
        n <= self.tip && self.main.get(n as usize) == Some(&i)
    }
    fn getv(&self, h: &Byte32, store_first: bool) -> Option<HeaderIndexView> {
        let i = idx_of(h);
        let v = self.views.get(i)?;
        Some(if store_first && self.in_store(i) { strip(v) } else { v.clone() })
    }
    fn fast(&self, number: u64, cur: BlockNumberAndHash) -> Option<HeaderIndexView> {
        let i = idx_of(&cur.hash());
        if i < self.views.len() && self.in_store(i) {
            self.main.get(number as usize).and_then(|j| self.views.get(*j)).map(strip)
        } else {
            None
        }
    }
    fn walk(&self, base: usize, n: u64) -> Option<usize> {
        if n > self.nodes[base].0 {
            return None;
        }
        let mut c = base;
        while self.nodes[c].0 > n {
            c = self.nodes[c].1;
        }
        Some(c)
    }
    /// run the real build_skip for every header in creation order
    fn build(nodes: Vec<(u64, usize)>, main: Vec<usize>, tip: u64) -> Tree {
        let mut t = Tree { nodes, main, tip, views: Vec::new() };
        for i in 0..t.nodes.len() {
            let (number, parent) = t.nodes[i];
            let ph = if parent == usize::MAX { Byte32::zero() } else { hid(parent) };
            let mut v = HeaderIndexView::new(hid(i), number, EpochNumberWithFraction::new(number / 1000, number % 1000, 1000), number, ph, U256::from(number));
            v.build_skip(t.tip, |h, sf| t.getv(h, sf), |n, c| t.fast(n, c));
            t.views.push(v);
        }
        t
    }
    fn coq(&self) -> String {
        let hdrs: Vec<String> = self.views.iter().enumerate().map(|(i, v)| {
            format!("({}, mkHdr {} {} {} {})", coq_n(i as u128 + 1), coq_n(i as u128 + 1), coq_n(v.number() as u128),
                    coq_n(if self.nodes[i].1 == usize::MAX { 0 } else { self.nodes[i].1 as u128 + 1 }),
                    coq_option(&v.skip_hash().map(|h| idx_of(h) as u128 + 1), |x| coq_n(*x)))
        }).collect();
        let main: Vec<String> = self.main.iter().enumerate().map(|(n, i)| format!("({}, {})", coq_n(n as u128), coq_n(*i as u128 + 1))).collect();
        format!("mkChain [{}] [{}] {}", hdrs.join("; "), main.join("; "), coq_n(self.tip as u128))
    }
    fn json(&self) -> Value {
        json!({"nodes": self.nodes.iter().map(|(n, p)| json!([n, if *p == usize::MAX { -1i64 } else { *p as i64 }])).collect::<Vec<_>>(),
               "main": self.main, "tip": self.tip})
    }
}

fn random_tree(rng: &mut Rng, n: usize, fork_pct: u64, stored_pct: u64) -> (Vec<(u64, usize)>, Vec<usize>, u64) {
    let mut nodes: Vec<(u64, usize)> = vec![(0, usize::MAX)];
    for i in 1..n {
        let p = if rng.below(100) < fork_pct { rng.below(i as u64) as usize } else { i - 1 };
        nodes.push((nodes[p].0 + 1, p));
    }
    // main branch = path from a random node to the root, stored up to `tip`
    let leaf = if stored_pct == 0 { 0 } else { rng.below(n as u64) as usize };
    let mut path = vec![leaf];
    while nodes[*path.last().unwrap()].1 != usize::MAX {
        path.push(nodes[*path.last().unwrap()].1);
    }
    path.reverse();
    let tip = (path.len() as u64 - 1) * stored_pct / 100;
    path.truncate(tip as usize + 1);
    (nodes, path, tip)
}

fn check_tree(cx: &mut Ctx, t: &Tree, queries: &[(usize, u64)], to_coq: bool, stream: &str) {
    let ctx = json!({"structure": "ancestor", "stream": stream, "tree": t.json()});
    // skip pointers
    for (i, v) in t.views.iter().enumerate() {
        let n = v.number();
        let want = if n == 0 { None } else { t.walk(i, skip_spec(n)) };
        let got = v.skip_hash().map(idx_of);
        if got != want {
            cx.violation("build_skip does not point to the ancestor at the skip height".into(), json!({"case": ctx, "header": i, "got": got, "expected": want}));
            break;
        }
    }
    let mut coq_q = Vec::new();
    for (base, n) in queries {
        let got = t.views[*base].get_ancestor(t.tip, *n, |h, sf| t.getv(h, sf), |m, c| t.fast(m, c)).map(|v| idx_of(&v.hash()));
        let want = t.walk(*base, *n);
        cx.count("ancestor_queries");
        if got != want {
            cx.violation("get_ancestor differs from walking parent links".into(), json!({"case": ctx, "base": base, "number": n, "got": got, "expected": want}));
        }
        coq_q.push(format!("({}, {}, {})", coq_n(*base as u128 + 1), coq_n(*n as u128), coq_option(&got.map(|x| x as u128 + 1), |x| coq_n(*x))));
    }
    cx.evaluations += 1;
    cx.distinct += 1;
    if to_coq {
        let mut d = ctx.clone();
        d["queries"] = json!(queries.len());
        cx.case(G_ANC, format!("mkAnc ({}) [{}]", t.coq(), coq_q.join("; ")), d);
        cx.count("ancestor_coq_cases");
    }
}

fn run_ancestors(cx: &mut Ctx) {
    // small trees: every (base, number) pair, number up to number(base)+1
    let n_small = if cx.thorough { 600 } else { 120 };
    for k in 0..n_small {
        let n = cx.rng.range(2, 40) as usize;
        let fork = *cx.rng.pick(&[0u64, 10, 40]);
        let stored = *cx.rng.pick(&[0u64, 0, 50, 100]);
        let mut r = cx.rng.fork();
        let (nodes, main, tip) = random_tree(&mut r, n, fork, stored);
        let t = Tree::build(nodes, main, tip);
        let mut q = Vec::new();
        for b in 0..n {
            for m in 0..=t.nodes[b].0 + 1 {
                q.push((b, m));
            }
        }
        check_tree(cx, &t, &q, k % 2 == 0, "small-all-pairs");
        cx.count("ancestor_trees_small");
    }
    // medium chains (model-compared) and long chains up to 2^16+ heights (predicate only)
    let sizes: Vec<(usize, bool)> = if cx.thorough { vec![(300, true), (400, true), (5000, false), (70000, false), (70000, false)] } else { vec![(300, true), (3000, false), (70000, false)] };
    for (n, to_coq) in sizes {
        let fork = if n > 10000 { 1 } else { 5 };
        let mut r = cx.rng.fork();
        let (nodes, main, tip) = random_tree(&mut r, n, fork, *cx.rng.pick(&[0u64, 30]));
        let t = Tree::build(nodes, main, tip);
        let mut q = Vec::new();
        for _ in 0..(if to_coq { 150 } else { 3000 }) {
            let b = cx.rng.below(n as u64) as usize;
            let m = cx.rng.below(t.nodes[b].0 + 2);
            q.push((b, m));
        }
        check_tree(cx, &t, &q, to_coq, "long-random-pairs");
        cx.count("ancestor_trees_long");
    }
}

fn run_heights(cx: &mut Ctx) {
    let prev = std::panic::take_hook();
    std::panic::set_hook(Box::new(|_| {}));
    // dense sweep of small heights, all powers of two +-2, random 63-bit and 64-bit values
    let dense = if cx.thorough { 1 << 20 } else { 1 << 16 };
    for h in 0..dense {
        one_height(cx, h, h < 600);
    }
    for b in 1..64u32 {
        for d in -2i64..=2 {
            let h = (1u64 << b).wrapping_add(d as u64);
            one_height(cx, h, true);
        }
    }
    for h in [u64::MAX, u64::MAX - 1, u64::MAX - 2, (1u64 << 63) + 12345] {
        one_height(cx, h, true);
    }
    let n = if cx.thorough { 200_000 } else { 20_000 };
    for i in 0..n {
        let bits = cx.rng.range(2, 64);
        let h = cx.rng.next() >> (64 - bits);
        one_height(cx, h, i % 40 == 0);
    }
    cx.evaluations += 1;
    cx.distinct += 1;
    std::panic::set_hook(prev);
}

pub fn replay_ancestor(case: &Value, viol: &mut Vec<Violation>) {
    let tr = &case["tree"];
    let nodes: Vec<(u64, usize)> = tr["nodes"].as_array().unwrap().iter().map(|x| (x[0].as_u64().unwrap(), if x[1].as_i64().unwrap() < 0 { usize::MAX } else { x[1].as_u64().unwrap() as usize })).collect();
    let main: Vec<usize> = tr["main"].as_array().unwrap().iter().map(|x| x.as_u64().unwrap() as usize).collect();
    let t = Tree::build(nodes, main, tr["tip"].as_u64().unwrap());
    let mut bad = 0;
    for b in 0..t.nodes.len() {
        for m in 0..=t.nodes[b].0 {
            let got = t.views[b].get_ancestor(t.tip, m, |h, sf| t.getv(h, sf), |x, c| t.fast(x, c)).map(|v| idx_of(&v.hash()));
            if got != t.walk(b, m) {
                bad += 1;
                if bad <= 3 {
                    println!("get_ancestor(header {b}, {m}) = {:?}, parent walk gives {:?}", got, t.walk(b, m));
                }
            }
        }
    }
    if bad > 0 {
        viol.push(Violation { what: format!("{bad} ancestor queries differ from the parent walk"), detail: case.clone(), signature: None });
    }
}

pub fn replay(case: &Value, viol: &mut Vec<Violation>) {
    if case["structure"] == "ancestor" {
        return replay_ancestor(case, viol);
    }
    if case["structure"] == "skip_height" {
        let h = case["height"].as_u64().unwrap();
        let r = std::panic::catch_unwind(|| verif_get_skip_height(h)).ok();
        println!("get_skip_height({h}) = {r:?}, specification {}", skip_spec(h));
        if h < (1 << 63) && r != Some(skip_spec(h)) {
            viol.push(Violation { what: "get_skip_height differs from the specification".into(), detail: case.clone(), signature: None });
        }
    }
}
