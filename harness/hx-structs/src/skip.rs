//! Skip list: get_skip_height, build_skip / get_ancestor of HeaderIndexView,
//! ActiveChain::get_locator.
use crate::*;
use ckb_shared::types::verif_get_skip_height;

fn skip_spec(h: u64) -> u64 {
    // written from the comment in the code: "turn the lowest 1 bit into 0"
    fn clear(n: u64) -> u64 {
        if n == 0 { 0 } else { n & (n - 1) }
    }
    if h < 2 {
        0
    } else if h & 1 == 1 {
        clear(clear(h - 1)) + 1
    } else {
        clear(h)
    }
}

fn one_height(cx: &mut Ctx, h: u64, to_coq: bool) {
    let r = std::panic::catch_unwind(|| verif_get_skip_height(h)).ok();
    cx.count("skip_height_values");
    if h < (1u64 << 63) {
        match r {
            None => cx.violation("get_skip_height panics below 2^63".into(), json!({"case": {"structure": "skip_height", "height": h}})),
            Some(s) => {
                if (h > 0 && s >= h) || s != skip_spec(h) {
                    cx.violation("get_skip_height is not the height with the lowest one bit(s) cleared / not below the height".into(),
                                 json!({"case": {"structure": "skip_height", "height": h}, "got": s, "expected": skip_spec(h)}));
                }
            }
        }
    }
    if to_coq {
        cx.case(G_SKIPH, format!("({}, {})", coq_n(h as u128), coq_option(&r, |x| coq_n(*x as u128))), json!({"structure": "skip_height", "height": h, "observed": r}));
    }
}

pub fn run(cx: &mut Ctx) {
    let prev = std::panic::take_hook();
    std::panic::set_hook(Box::new(|_| {}));
    // dense sweep of small heights, all powers of two +-2, random 63-bit and 64-bit values
    let dense = if cx.thorough { 1 << 20 } else { 1 << 16 };
    for h in 0..dense {
        one_height(cx, h, h < 600);
    }
    for b in 1..64u32 {
        for d in -2i64..=2 {
            let h = (1u64 << b).wrapping_add(d as u64);
            one_height(cx, h, true);
        }
    }
    for h in [u64::MAX, u64::MAX - 1, u64::MAX - 2, (1u64 << 63) + 12345] {
        one_height(cx, h, true);
    }
    let n = if cx.thorough { 200_000 } else { 20_000 };
    for i in 0..n {
        let bits = cx.rng.range(2, 64);
        let h = cx.rng.next() >> (64 - bits);
        one_height(cx, h, i % 40 == 0);
    }
    cx.evaluations += 1;
    cx.distinct += 1;
    std::panic::set_hook(prev);
}

pub fn replay(case: &Value, viol: &mut Vec<Violation>) {
    if case["structure"] == "skip_height" {
        let h = case["height"].as_u64().unwrap();
        let r = std::panic::catch_unwind(|| verif_get_skip_height(h)).ok();
        println!("get_skip_height({h}) = {r:?}, specification {}", skip_spec(h));
        if h < (1 << 63) && r != Some(skip_spec(h)) {
            viol.push(Violation { what: "get_skip_height differs from the specification".into(), detail: case.clone(), signature: None });
        }
    }
}
