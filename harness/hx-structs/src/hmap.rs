use crate::*;
pub fn run(_cx: &mut Ctx) {}
pub fn replay(_case: &Value, _viol: &mut Vec<Violation>) {}
