//! Header map: real `ckb_shared::HeaderMap` (memory tier + sled backend) with
//! synchronous spill steps at arbitrary points vs a plain map.
use crate::*;
use ckb_shared::types::header_map::HeaderMap;
use ckb_shared::types::HeaderIndexView;
use ckb_types::{core::EpochNumberWithFraction, packed::Byte32, U256};
use std::collections::BTreeMap;
use std::sync::atomic::AtomicBool;
use std::sync::Arc;

#[derive(Clone, Debug, PartialEq, Eq)]
pub enum Op {
    Insert(u64, u64), // key, version of the view
    Get(u64),
    Contains(u64),
    Remove(u64),
    Spill,
}
#[derive(Clone, Debug, PartialEq, Eq)]
pub enum Ans {
    Ins(bool),
    Get(Option<u64>),
    Cont(bool),
    Unit,
}

fn key_hash(k: u64) -> Byte32 {
    crate::orphan::hash_of(1000 + k)
}
/// a header view that differs in every field between versions (odd versions carry a skip hash)
pub fn make_view(k: u64, ver: u64) -> HeaderIndexView {
    let mut v = HeaderIndexView::new(
        key_hash(k),
        ver * 1000 + k + 1,
        EpochNumberWithFraction::new(ver, k % 7, 10),
        ver * 7777 + 1,
        crate::orphan::hash_of(5000 + ver),
        U256::from(ver * 1_000_003 + k),
    );
    if ver % 2 == 1 {
        let target = HeaderIndexView::new(crate::orphan::hash_of(9000 + ver), 0, EpochNumberWithFraction::new(0, 0, 1), 0, Byte32::zero(), U256::zero());
        let t2 = target.clone();
        v.build_skip(0, move |_, _| Some(t2.clone()), move |_, _| Some(target.clone()));
    }
    v
}

fn op_coq(o: &Op) -> String {
    match o {
        Op::Insert(k, v) => format!("HInsert {} {}", coq_n(*k as u128), coq_n(*v as u128)),
        Op::Get(k) => format!("HGet {}", coq_n(*k as u128)),
        Op::Contains(k) => format!("HContains {}", coq_n(*k as u128)),
        Op::Remove(k) => format!("HRemove {}", coq_n(*k as u128)),
        Op::Spill => "HSpill".into(),
    }
}
fn op_json(o: &Op) -> Value {
    match o {
        Op::Insert(k, v) => json!(["insert", k, v]),
        Op::Get(k) => json!(["get", k]),
        Op::Contains(k) => json!(["contains_key", k]),
        Op::Remove(k) => json!(["remove", k]),
        Op::Spill => json!(["limit_memory"]),
    }
}
fn op_parse(v: &Value) -> Op {
    let a = v.as_array().unwrap();
    let n = |i: usize| a[i].as_u64().unwrap();
    match a[0].as_str().unwrap() {
        "insert" => Op::Insert(n(1), n(2)),
        "get" => Op::Get(n(1)),
        "contains_key" => Op::Contains(n(1)),
        "remove" => Op::Remove(n(1)),
        _ => Op::Spill,
    }
}
fn ans_coq(a: &Ans) -> String {
    match a {
        Ans::Ins(b) => format!("AIns {}", coq_bool(*b)),
        Ans::Get(o) => format!("AGet {}", coq_option(o, |x| coq_n(*x as u128))),
        Ans::Cont(b) => format!("ACont {}", coq_bool(*b)),
        Ans::Unit => "AUnit".into(),
    }
}

pub struct Maps {
    _rt: tokio::runtime::Runtime,
    maps: BTreeMap<usize, HeaderMap>,
    versions: u64,
}
impl Maps {
    pub fn new() -> Self {
        // a runtime nobody drives: the 5 s limit_memory timer task is spawned but never
        // polled, so spills happen only where the harness puts them
        let rt = tokio::runtime::Builder::new_current_thread().enable_time().build().unwrap();
        Maps { _rt: rt, maps: BTreeMap::new(), versions: 6 }
    }
    fn get(&mut self, limit: usize) -> &HeaderMap {
        let handle = ckb_async_runtime::Handle::new(self._rt.handle().clone(), None);
        self.maps.entry(limit).or_insert_with(|| {
            let dir = std::env::temp_dir();
            HeaderMap::new(Some(dir), limit * std::mem::size_of::<HeaderIndexView>(), &handle, Arc::new(AtomicBool::new(true)))
        })
    }
}

type Obs = (Ans, Vec<(bool, bool)>);

pub fn run_ops(maps: &mut Maps, limit: usize, keys: &[u64], ops: &[Op], viol: &mut Vec<Violation>, ctx: &Value) -> Vec<Obs> {
    let versions = maps.versions;
    let m = maps.get(limit);
    let mut spec: BTreeMap<u64, u64> = BTreeMap::new();
    let mut out = Vec::new();
    let mut push = |what: String, step: usize, extra: Value| {
        if viol.len() < 200 {
            viol.push(Violation { what, detail: json!({"case": ctx, "step": step, "info": extra}), signature: None });
        }
    };
    for (step, op) in ops.iter().enumerate() {
        let ans = match op {
            Op::Insert(k, v) => {
                let r = m.insert(make_view(*k, *v)).is_some();
                spec.insert(*k, *v);
                Ans::Ins(r)
            }
            Op::Get(k) => {
                let got = m.get(&key_hash(*k));
                let want = spec.get(k).map(|v| make_view(*k, *v));
                if got != want {
                    push("get does not answer like the plain map".into(), step, json!({"key": k, "got": format!("{:?}", got), "expected": format!("{:?}", want)}));
                }
                // which version is it (for the model)
                Ans::Get(got.and_then(|g| (0..versions).find(|v| make_view(*k, *v) == g).or(Some(999))))
            }
            Op::Contains(k) => {
                let r = m.contains_key(&key_hash(*k));
                if r != spec.contains_key(k) {
                    push("contains_key does not answer like the plain map".into(), step, json!({"key": k, "got": r}));
                }
                Ans::Cont(r)
            }
            Op::Remove(k) => {
                m.remove(&key_hash(*k));
                spec.remove(k);
                Ans::Unit
            }
            Op::Spill => {
                m.verif_limit_memory();
                Ans::Unit
            }
        };
        let tiers: Vec<(bool, bool)> = keys.iter().map(|k| m.verif_tiers(&key_hash(*k))).collect();
        for (i, k) in keys.iter().enumerate() {
            if (tiers[i].0 || tiers[i].1) != spec.contains_key(k) {
                push("a key is held by a tier although the plain map does not hold it (or the reverse)".into(), step, json!({"key": k, "tiers": tiers[i]}));
            }
        }
        if matches!(op, Op::Spill) && tiers.iter().filter(|t| t.0).count() > limit {
            push("after limit_memory the memory tier holds more than the limit".into(), step, json!({"tiers": tiers}));
        }
        out.push((ans, tiers));
    }
    // leave the map empty for the next sequence
    for k in keys {
        m.remove(&key_hash(*k));
    }
    if keys.iter().any(|k| m.contains_key(&key_hash(*k))) {
        push("remove leaves a key behind".into(), ops.len(), json!({}));
    }
    out
}

fn emit(cx: &mut Ctx, maps: &mut Maps, limit: usize, keys: &[u64], ops: &[Op], to_coq: bool, stream: &str) {
    let ctx = json!({"structure": "hmap", "stream": stream, "limit": limit, "keys": keys, "ops": ops.iter().map(op_json).collect::<Vec<_>>()});
    let mut v = std::mem::take(&mut cx.viol);
    let obs = run_ops(maps, limit, keys, ops, &mut v, &ctx);
    cx.viol = v;
    cx.evaluations += 1;
    if ops.iter().filter(|o| matches!(o, Op::Insert(..) | Op::Remove(_) | Op::Spill)).count() >= 2 {
        cx.distinct += 1;
    }
    if obs.iter().any(|o| o.1.iter().any(|t| t.0 && t.1)) {
        cx.count("hmap_seq_key_in_both_tiers");
    }
    if to_coq {
        let mut d = ctx.clone();
        d["observed"] = json!(obs.iter().map(|o| json!({"answer": format!("{:?}", o.0), "tiers": o.1})).collect::<Vec<_>>());
        if cx.samples.len() < 3 {
            cx.samples.push(d.clone());
        }
        cx.case(
            G_HMAP,
            format!(
                "mkHCase {} {} {} {}",
                coq_nat(limit as u64),
                coq_list(keys, |k| coq_n(*k as u128)),
                coq_list(ops, op_coq),
                coq_list(&obs, |(a, t)| format!("({}, {})", ans_coq(a), coq_list(t, |(x, y)| format!("({}, {})", coq_bool(*x), coq_bool(*y)))))
            ),
            d,
        );
        cx.count("hmap_coq_cases");
    }
}

pub fn run(cx: &mut Ctx) {
    let mut maps = Maps::new();
    // corpus: a spilled key re-inserted (both tiers), read, removed
    emit(cx, &mut maps, 1, &[1, 2], &[Op::Insert(1, 0), Op::Insert(2, 0), Op::Spill, Op::Insert(1, 1), Op::Get(1), Op::Spill, Op::Contains(2), Op::Remove(1), Op::Get(1), Op::Get(2)], true, "corpus");
    // ---- bounded-exhaustive: 3 keys x 2 versions, every sequence (spill steps included) up to length L
    let keys = [1u64, 2, 3];
    let mut alphabet: Vec<Op> = Vec::new();
    for k in keys {
        alphabet.push(Op::Insert(k, 0));
        alphabet.push(Op::Insert(k, 1));
    }
    for k in keys {
        alphabet.push(Op::Get(k));
        alphabet.push(Op::Contains(k));
        alphabet.push(Op::Remove(k));
    }
    alphabet.push(Op::Spill);
    let n = alphabet.len() as u64;
    let len_max = if cx.thorough { 5 } else { 4 };
    let mut cnt = 0u64;
    for limit in [1usize, 2] {
        for len in 1..=len_max {
            for code in 0..n.pow(len) {
                let mut c = code;
                let mut ops = Vec::new();
                for _ in 0..len {
                    ops.push(alphabet[(c % n) as usize].clone());
                    c /= n;
                }
                if len > 1 && !matches!(ops[0], Op::Insert(..)) {
                    continue;
                }
                // append a read of every key so the final state is always observed
                for k in keys {
                    ops.push(Op::Get(k));
                }
                cnt += 1;
                let to_coq = len == len_max && cnt % (if cx.thorough { 4000 } else { 150 }) == 0;
                emit(cx, &mut maps, limit, &keys, &ops, to_coq, "exhaustive-3");
                cx.count("hmap_seq_exhaustive");
            }
        }
    }
    // ---- random long sequences, limits 1..4, 8 keys
    let n_rand = if cx.thorough { 5000 } else { 500 };
    let keys8: Vec<u64> = (1..=8).collect();
    for _ in 0..n_rand {
        let limit = cx.rng.range(1, 4) as usize;
        let nops = cx.rng.range(15, 70);
        let mut ops = Vec::new();
        for _ in 0..nops {
            let k = cx.rng.range(1, 8);
            let r = cx.rng.below(100);
            ops.push(if r < 38 {
                Op::Insert(k, cx.rng.below(6))
            } else if r < 58 {
                Op::Get(k)
            } else if r < 68 {
                Op::Contains(k)
            } else if r < 80 {
                Op::Remove(k)
            } else {
                Op::Spill
            });
        }
        emit(cx, &mut maps, limit, &keys8, &ops, true, "random");
        cx.count("hmap_seq_random");
    }
    drop(maps);
}

pub fn replay(case: &Value, viol: &mut Vec<Violation>) {
    let ops: Vec<Op> = case["ops"].as_array().unwrap().iter().map(op_parse).collect();
    let keys: Vec<u64> = case["keys"].as_array().unwrap().iter().map(|k| k.as_u64().unwrap()).collect();
    let mut maps = Maps::new();
    let obs = run_ops(&mut maps, case["limit"].as_u64().unwrap() as usize, &keys, &ops, viol, case);
    println!("answers: {:?}", obs.iter().map(|o| &o.0).collect::<Vec<_>>());
    drop(maps);
}
