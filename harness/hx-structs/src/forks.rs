//! "stored-forks" stream: ActiveChain::get_ancestor / get_ancestor_with_unverified /
//! get_locator / last_common_ancestor on a REAL node (temp DB + chain services) whose
//! store holds a main chain AND stored side branches (blocks the chain service
//! processed that are not on the main chain: lighter / equal-work forks, branches of
//! branches, the old main chain after a reorganisation), with header-only
//! continuations above stored side blocks and above the tip, header-only forks, and
//! blocks whose body is in the store but that were never processed (orphans).
//!
//! Every block is fully valid in its own chain (cellbase reward, DAO field, epoch,
//! chain-root extension are computed by a builder node whose tip is the parent).
//! The predicate is the parent walk over the blocks built here, independent of the
//! Coq model; the universe as the node reports it (header map, store, index, epoch
//! indices, tips) goes to Coq together with every answer.
use crate::*;
use ckb_chain::{ChainServiceScope, LonelyBlock, VerifyResult};
use ckb_chain_spec::consensus::{build_genesis_epoch_ext, Consensus, ConsensusBuilder, ProposalWindow};
use ckb_dao::DaoCalculator;
use ckb_dao_utils::genesis_dao_data;
use ckb_network::PeerIndex;
use ckb_reward_calculator::RewardCalculator;
use ckb_shared::{Shared, SharedBuilder};
use ckb_store::ChainStore;
use ckb_sync::SyncShared;
use ckb_test_chain_utils::{always_success_cell, always_success_cellbase};
use ckb_types::{
    core::{
        cell::{resolve_transaction, OverlayCellProvider, TransactionsProvider},
        BlockBuilder, BlockView, Capacity, EpochNumberWithFraction, HeaderBuilder, HeaderView, TransactionBuilder,
    },
    packed::{self, Byte32, CellInput, OutPoint},
    prelude::*,
    utilities::difficulty_to_compact,
    BlockNumberAndHash, U256,
};
use std::collections::{BTreeSet, HashMap, HashSet};
use std::sync::{mpsc, Arc};

const GENESIS_TS: u64 = 1_700_000_000_000;

fn make_consensus() -> Consensus {
    let (cell, data, script) = always_success_cell();
    let as_tx = TransactionBuilder::default()
        .input(CellInput::new(OutPoint::null(), 0))
        .output(cell.clone())
        .output_data(data.clone())
        .witness(script.clone().into_witness())
        .build();
    let dao = genesis_dao_data(vec![&as_tx]).unwrap();
    let compact = difficulty_to_compact(U256::from(1000u64));
    let genesis = BlockBuilder::default().timestamp(GENESIS_TS).compact_target(compact).dao(dao).transaction(as_tx).build();
    let epoch_ext = build_genesis_epoch_ext(Capacity::shannons(1_917_808_21917808), compact, 1000, 4 * 60 * 60, (1, 40));
    ConsensusBuilder::new(genesis, epoch_ext)
        .cellbase_maturity(EpochNumberWithFraction::new(0, 0, 1))
        .tx_proposal_window(ProposalWindow(2, 10))
        .build()
}

struct Node {
    shared: Shared,
    sync: SyncShared,
    scope: ChainServiceScope,
}

impl Node {
    fn temp(consensus: &Consensus) -> Node {
        let (shared, mut pack) = SharedBuilder::with_temp_db().consensus(consensus.clone()).build().expect("build shared");
        let sync = SyncShared::new(shared.clone(), Default::default(), pack.take_relay_tx_receiver());
        let scope = ChainServiceScope::new(pack.take_chain_services_builder());
        while scope.chain_controller().is_verifying_unverified_blocks_on_startup() {
            std::thread::sleep(std::time::Duration::from_millis(5));
        }
        Node { shared, sync, scope }
    }
    fn deliver(&self, block: &BlockView) -> mpsc::Receiver<VerifyResult> {
        let (tx, rx) = mpsc::channel();
        let tx = std::sync::Mutex::new(tx);
        self.scope.chain_controller().asynchronous_process_lonely_block(LonelyBlock {
            block: Arc::new(block.clone()),
            switch: None,
            verify_callback: Some(Box::new(move |r: VerifyResult| {
                let _ = tx.lock().unwrap().send(r);
            })),
        });
        rx
    }
    /// delivers a block with full verification and waits for the verdict
    fn process(&self, block: &BlockView) -> Result<bool, String> {
        match self.deliver(block).recv_timeout(std::time::Duration::from_secs(120)) {
            Ok(r) => r.map_err(|e| format!("{e}")),
            Err(_) => Err("no verdict within 120 s".into()),
        }
    }
    /// a fully valid empty child of this node's tip
    fn build_on_tip(&self, nonce: u128, ts_delta: u64) -> BlockView {
        let snapshot = self.shared.snapshot();
        let consensus = snapshot.consensus();
        let parent = snapshot.tip_header().clone();
        let number = parent.number() + 1;
        let epoch = consensus.next_epoch_ext(&parent, &snapshot.borrow_as_data_loader()).expect("next epoch").epoch();
        let (_, reward) = RewardCalculator::new(consensus, snapshot.as_ref()).block_reward_to_finalize(&parent).expect("reward");
        let cellbase = always_success_cellbase(number, reward.total, consensus);
        let all = vec![cellbase.clone()];
        let dao = {
            let provider = TransactionsProvider::new(all.iter());
            let overlay = OverlayCellProvider::new(&provider, snapshot.as_ref());
            let mut seen = HashSet::new();
            let rtxs: Vec<_> = all.iter().map(|tx| resolve_transaction(tx.clone(), &mut seen, &overlay, snapshot.as_ref()).expect("resolve")).collect();
            let loader = snapshot.borrow_as_data_loader();
            DaoCalculator::new(consensus, &loader).dao_field(rtxs.iter(), &parent).expect("dao")
        };
        let mut b = BlockBuilder::default()
            .parent_hash(parent.hash())
            .number(number)
            .timestamp(parent.timestamp() + std::cmp::max(1, ts_delta))
            .epoch(epoch.number_with_fraction(number))
            .compact_target(epoch.compact_target())
            .nonce(nonce)
            .dao(dao)
            .transaction(cellbase);
        if consensus.rfc0044_active(parent.epoch().number()) {
            let root = snapshot.chain_root_mmr(parent.number()).get_root().expect("chain root");
            let bytes: packed::Bytes = root.calc_mmr_hash().as_bytes().into();
            b = b.extension(Some(bytes));
        }
        b.build()
    }
}

/// how a block reached the node under test
#[derive(Clone, Copy, PartialEq, Debug)]
enum Kind {
    /// processed by the chain service (main chain or stored side branch: the node decides)
    Stored,
    /// header of a real block, insert_valid_header only
    Header,
    /// header inserted and the body delivered before its parent: body in the store, never processed
    Orphan,
    /// synthetic header, insert_valid_header only
    Synthetic,
}

struct Blk {
    hv: HeaderView,
    parent: usize,
    kind: Kind,
}

struct Uni {
    node: Node,
    blks: Vec<Blk>,
    by_hash: HashMap<Byte32, usize>,
    /// numbers of the fork points (parents of side branches and header forks)
    fork_numbers: BTreeSet<u64>,
    desc: Value,
}

impl Uni {
    fn number(&self, i: usize) -> u64 {
        self.blks[i].hv.number()
    }
    fn hash(&self, i: usize) -> Byte32 {
        self.blks[i].hv.hash()
    }
    /// the specification: walk parent links one by one
    fn walk(&self, mut i: usize, n: u64) -> Option<usize> {
        if n > self.number(i) {
            return None;
        }
        while self.number(i) > n {
            i = self.blks[i].parent;
        }
        Some(i)
    }
    fn lca(&self, a: usize, b: usize) -> usize {
        let n = self.number(a).min(self.number(b));
        let (mut x, mut y) = (self.walk(a, n).unwrap(), self.walk(b, n).unwrap());
        while x != y {
            x = self.blks[x].parent;
            y = self.blks[y].parent;
        }
        x
    }
    fn push(&mut self, hv: HeaderView, parent: usize, kind: Kind) -> usize {
        let id = self.blks.len();
        self.by_hash.insert(hv.hash(), id);
        self.blks.push(Blk { hv, parent, kind });
        id
    }
    fn id_of(&self, h: &Byte32) -> Option<usize> {
        self.by_hash.get(h).cloned()
    }
}

/// Builds the universe of `useed` on a fresh node. Err = the construction itself failed
/// (a valid block was rejected, a verdict never came …).
fn build_universe(useed: u64, consensus: &Consensus) -> Result<Uni, String> {
    let mut r = Rng(useed);
    let node = Node::temp(consensus);
    let genesis = consensus.genesis_block().header();
    let mut u = Uni { node, blks: vec![], by_hash: HashMap::new(), fork_numbers: BTreeSet::new(), desc: json!(null) };
    u.push(genesis.clone(), usize::MAX, Kind::Stored);
    let mut bodies: HashMap<usize, BlockView> = HashMap::new();
    let peer = PeerIndex::new(1);

    // main chain, built on the node's own tip
    let main_len = r.range(10, 60);
    for i in 1..=main_len {
        let b = u.node.build_on_tip(i as u128, 1);
        u.node.process(&b).map_err(|e| format!("main block {i} rejected: {e}"))?;
        let id = u.push(b.header(), (i - 1) as usize, Kind::Stored);
        bodies.insert(id, b);
    }
    let reorg = r.chance(1, 4);
    let n_br = r.range(1, 4) as usize;
    let mut branches = Vec::new();
    for j in 0..n_br {
        let tip_number = u.node.shared.snapshot().tip_number();
        let stored: Vec<usize> = (0..u.blks.len()).filter(|i| u.blks[*i].kind == Kind::Stored).collect();
        let side: Vec<usize> = stored.iter().cloned().filter(|i| !u.node.shared.snapshot().is_main_chain(&u.hash(*i))).collect();
        let last_reorg = reorg && j == n_br - 1;
        let p = if !side.is_empty() && r.chance(3, 10) {
            *r.pick(&side)
        } else {
            let n = if last_reorg {
                tip_number - r.range(1, 6).min(tip_number)
            } else {
                match r.below(3) {
                    0 => r.range(0, tip_number / 3),
                    1 => r.range(0, tip_number - 1),
                    _ => tip_number - r.range(1, 3),
                }
            };
            u.id_of(&u.node.shared.snapshot().get_block_hash(n).unwrap()).unwrap()
        };
        let cap = tip_number.saturating_sub(u.number(p));
        let mut k = r.range(1, 8).min(cap);
        if cap <= 8 && r.chance(1, 4) {
            k = cap; // equal-work fork: first seen stays main
        }
        if last_reorg && cap <= 12 {
            k = cap + r.range(1, 2); // heavier: the node reorganises onto this branch
        }
        let extras = r.range(0, 3);
        let orphan = extras >= 2 && r.chance(1, 2);
        // a builder node whose chain is genesis..p
        let builder = Node::temp(consensus);
        let mut path = vec![];
        let mut x = p;
        while x != 0 {
            path.push(x);
            x = u.blks[x].parent;
        }
        for x in path.iter().rev() {
            builder.process(&bodies[x]).map_err(|e| format!("builder rejects block id {x}: {e}"))?;
        }
        if builder.shared.snapshot().tip_hash() != u.hash(p) {
            return Err(format!("builder tip is not the fork parent {p}"));
        }
        let mut prev = p;
        let mut ids = vec![];
        for i in 0..(k + extras) {
            let b = builder.build_on_tip(((j as u128 + 1) << 32) + i as u128, 2 + j as u64);
            builder.process(&b).map_err(|e| format!("builder rejects its own block: {e}"))?;
            let kind = if i < k {
                u.node.process(&b).map_err(|e| format!("branch {j} block {i} (parent id {prev}) rejected: {e}"))?;
                Kind::Stored
            } else {
                u.node.sync.insert_valid_header(peer, &b.header());
                if orphan && i == k + extras - 1 {
                    let before = u.node.scope.chain_controller().orphan_blocks_len();
                    let _rx = u.node.deliver(&b);
                    let t0 = std::time::Instant::now();
                    while u.node.shared.store().get_block_header(&b.hash()).is_none()
                        || u.node.scope.chain_controller().orphan_blocks_len() <= before
                    {
                        if t0.elapsed().as_secs() > 20 {
                            return Err("the orphan body never reached the store / orphan pool".into());
                        }
                        std::thread::sleep(std::time::Duration::from_millis(2));
                    }
                    Kind::Orphan
                } else {
                    Kind::Header
                }
            };
            let id = u.push(b.header(), prev, kind);
            bodies.insert(id, b);
            ids.push(id);
            prev = id;
        }
        u.fork_numbers.insert(u.number(p));
        branches.push(json!({"parent_id": p, "parent_number": u.number(p), "stored": k, "header_only": extras, "last_is_orphan_body": orphan,
                             "tip_number_before": tip_number, "ids": ids, "reorg_intended": last_reorg && cap <= 12}));
        drop(builder);
    }
    // synthetic header-only forks; the first one sits on the main tip (above the tip only headers exist)
    let n_hf = r.range(1, 3) as usize;
    let mut hforks = Vec::new();
    let mut above_tip: Vec<usize> = vec![];
    for j in 0..n_hf {
        let tip_id = u.id_of(&u.node.shared.snapshot().tip_hash()).unwrap();
        let p = if j == 0 { tip_id } else { r.below(u.blks.len() as u64) as usize };
        let len = r.range(1, 12);
        let mut prev = p;
        let mut ids = vec![];
        for i in 0..len {
            let ph = u.blks[prev].hv.clone();
            let number = ph.number() + 1;
            let h = HeaderBuilder::default()
                .parent_hash(ph.hash())
                .number(number)
                .timestamp(ph.timestamp() + 7 + j as u64)
                .epoch(EpochNumberWithFraction::new(0, number, 1000))
                .compact_target(genesis.compact_target())
                .nonce(((j as u128 + 1) << 64) + i as u128)
                .build();
            u.node.sync.insert_valid_header(peer, &h);
            let id = u.push(h, prev, Kind::Synthetic);
            ids.push(id);
            if j == 0 {
                above_tip.push(id);
            }
            prev = id;
        }
        u.fork_numbers.insert(u.number(p));
        hforks.push(json!({"parent_id": p, "parent_number": u.number(p), "len": len, "ids": ids}));
    }
    // the window in which blocks above the tip are accepted but not verified yet: the chain service has
    // moved the unverified tip up (Shared::set_unverified_tip, what OrphanBroker::send_unverified_block does)
    let mut raised = None;
    if r.chance(1, 3) && !above_tip.is_empty() {
        let id = *r.pick(&above_tip);
        u.node.shared.set_unverified_tip(ckb_shared::HeaderIndex::new(u.number(id), u.hash(id), U256::zero()));
        raised = Some(id);
    }
    u.desc = json!({"main_len": main_len, "branches": branches, "header_forks": hforks, "unverified_tip_raised_to_id": raised,
                    "blocks": u.blks.len(),
                    "tree": u.blks.iter().map(|b| json!([b.hv.number(), if b.parent == usize::MAX { -1 } else { b.parent as i64 }, format!("{:?}", b.kind)])).collect::<Vec<_>>()});
    Ok(u)
}

struct Report<'a> {
    cx: &'a mut Ctx,
    case: Value,
    per_kind: HashMap<&'static str, u32>,
}
impl<'a> Report<'a> {
    fn viol(&mut self, kind: &'static str, what: &str, detail: Value) {
        let c = self.per_kind.entry(kind).or_default();
        *c += 1;
        if *c <= 3 {
            let mut d = detail;
            d["case"] = self.case.clone();
            self.cx.violation(what.to_string(), d);
        }
    }
}

/// everything that is asked of one universe; returns the Coq case
fn check_universe(cx: &mut Ctx, u: &Uni, useed: u64, seed: u64, to_coq: bool) {
    let mut r = Rng(useed ^ 0x5151_5151);
    let case = json!({"structure": "forks", "stream": "stored-forks", "seed": seed, "useed": useed, "universe": u.desc});
    let mut rep = Report { cx, case, per_kind: HashMap::new() };
    let ac = u.node.sync.active_chain();
    let shared = &u.node.shared;
    let snapshot = shared.snapshot();
    let store = shared.store();
    let tip = snapshot.tip_number();
    let utip = ac.unverified_tip_number();
    let nb = u.blks.len();
    let ids1 = |i: usize| i as u128 + 1;

    // ---- the node's state as it reports it; the hypotheses of the theorems, checked on the node ----
    let mut main: Vec<usize> = vec![];
    for n in 0..=tip {
        match snapshot.get_block_hash(n).and_then(|h| u.id_of(&h)) {
            Some(i) => main.push(i),
            None => {
                rep.viol("hyp", "hypothesis: the main-chain index has no (known) block at a height up to the tip", json!({"number": n}));
                return;
            }
        }
    }
    if main[0] != 0 || snapshot.tip_hash() != u.hash(main[tip as usize]) || snapshot.get_block_hash(tip + 1).is_some() {
        rep.viol("hyp", "hypothesis: the index does not run from genesis to the tip", json!({"tip": tip}));
    }
    for n in 1..=tip as usize {
        if u.blks[main[n]].parent != main[n - 1] || u.number(main[n]) != n as u64 {
            rep.viol("hyp", "hypothesis: the main-chain index is not closed under parent links", json!({"number": n, "id": main[n]}));
        }
    }
    let mut has_ext = vec![false; nb];
    let mut has_epoch = vec![false; nb];
    let mut coq_map = vec![];
    let mut coq_store = vec![];
    let pid = |p: usize| if p == usize::MAX { 0u128 } else { p as u128 + 1 };
    for i in 0..nb {
        let h = u.hash(i);
        let on_main = main.get(u.number(i) as usize) == Some(&i);
        if ac.is_main_chain(&h) != on_main {
            rep.viol("hyp", "hypothesis: is_main_chain(hash) differs from index[number(hash)] == hash", json!({"id": i, "is_main_chain": !on_main}));
        }
        has_epoch[i] = ac.is_unverified_chain(&h);
        let sh = store.get_block_header(&h);
        let ext = store.get_block_ext(&h);
        has_ext[i] = sh.is_some() && ext.is_some();
        if has_ext[i] {
            let sh = sh.unwrap();
            if sh.number() != u.number(i) || (i > 0 && u.id_of(&sh.parent_hash()) != Some(u.blks[i].parent)) {
                rep.viol("hyp", "hypothesis: the stored header does not carry the block's number / parent", json!({"id": i}));
            }
            coq_store.push(format!("({}, mkHdr {} {} {} None)", coq_n(ids1(i)), coq_n(ids1(i)), coq_n(sh.number() as u128), coq_n(pid(u.blks[i].parent))));
        }
        let expect_stored = u.blks[i].kind == Kind::Stored;
        if has_ext[i] != expect_stored || has_epoch[i] != expect_stored {
            rep.viol("hyp", "a processed block is not stored with ext and epoch index / an unprocessed one is", json!({"id": i, "kind": format!("{:?}", u.blks[i].kind), "ext": has_ext[i], "epoch_index": has_epoch[i]}));
        }
        if u.blks[i].kind == Kind::Orphan && sh_is_none(store, &h) {
            rep.viol("hyp", "the orphan's body is not in the store", json!({"id": i}));
        }
        if let Some(v) = shared.header_map().get(&h) {
            let skip = v.skip_hash().map(|s| u.id_of(s));
            let want_skip = if u.number(i) == 0 { None } else { Some(u.walk(i, skip_spec(u.number(i)))) };
            if v.number() != u.number(i) || u.id_of(&v.parent_hash()) != Some(u.blks[i].parent) || skip != want_skip {
                rep.viol("hyp", "hypothesis: a header-map view is not faithful (number, parent, skip pointer = ancestor at the skip height)",
                         json!({"id": i, "skip": format!("{:?}", skip), "expected_skip": format!("{:?}", want_skip)}));
            }
            coq_map.push(format!("({}, mkHdr {} {} {} {})", coq_n(ids1(i)), coq_n(ids1(i)), coq_n(v.number() as u128), coq_n(pid(u.blks[i].parent)),
                                 coq_option(&skip.flatten().map(ids1), |x| coq_n(*x))));
        } else if !has_ext[i] {
            rep.viol("hyp", "hypothesis: a block of the universe is neither in the header map nor stored", json!({"id": i}));
        }
        if i > 0 && has_ext[i] && !has_ext[u.blks[i].parent] {
            rep.viol("hyp", "hypothesis: the stored set is not parent-closed", json!({"id": i}));
        }
    }
    rep.cx.count_n("forks_blocks_stored_side", (0..nb).filter(|i| has_ext[*i] && main.get(u.number(*i) as usize) != Some(i)).count() as u64);
    rep.cx.count_n("forks_blocks_header_only", (0..nb).filter(|i| !has_ext[*i]).count() as u64);
    rep.cx.count_n("forks_blocks_orphan_body", u.blks.iter().filter(|b| b.kind == Kind::Orphan).count() as u64);
    if utip != tip {
        rep.cx.count("forks_universes_unverified_tip_above_tip");
    }
    if u.desc["branches"].as_array().map(|a| a.iter().any(|b| b["reorg_intended"] == true)).unwrap_or(false) {
        rep.cx.count("forks_universes_with_reorg");
    }

    // ---- get_ancestor / get_ancestor_with_unverified ----
    let mut coq_anc = vec![];
    for b in 0..nb {
        let nbn = u.number(b);
        let mut hs: BTreeSet<u64> = [0, 1, nbn / 2, nbn.saturating_sub(1), nbn, nbn + 1].into_iter().collect();
        for f in &u.fork_numbers {
            hs.insert(f.saturating_sub(1));
            hs.insert(*f);
            hs.insert(*f + 1);
        }
        if main.get(nbn as usize) != Some(&b) {
            // off the main chain: every height from the fork point up to the base
            let f = u.number(u.lca(b, main[tip as usize]));
            for n in f..=nbn.min(f + 16) {
                hs.insert(n);
            }
        }
        hs.insert(tip);
        hs.insert(tip + 1);
        hs.insert(utip + 1);
        for _ in 0..2 {
            hs.insert(r.below(nbn + 1));
        }
        let hash = u.hash(b);
        for n in hs {
            let want = u.walk(b, n);
            // plain
            let got = std::panic::catch_unwind(std::panic::AssertUnwindSafe(|| ac.get_ancestor(&hash, n)));
            let got = match got {
                Ok(g) => g.map(|v| (u.id_of(&v.hash()), v.number())),
                Err(_) => {
                    rep.viol("anc_panic", "ActiveChain::get_ancestor panics", json!({"query": {"base_id": b, "base_number": nbn, "number": n}}));
                    continue;
                }
            };
            rep.cx.count("forks_ancestor_queries");
            let got_id = got.and_then(|g| g.0);
            let side_above_fork = has_ext[b] && want.is_some() && n <= tip && main.get(n as usize) != want.as_ref() && nbn > n;
            if side_above_fork {
                rep.cx.count("forks_ancestor_queries_stored_side_base_above_fork");
            }
            if got.is_some() != want.is_some() || got_id != want || got.map(|g| g.1 != n).unwrap_or(false) {
                rep.viol("anc", "ActiveChain::get_ancestor(base, n) is not the block reached from base by walking parent links down to height n",
                         json!({"query": {"base_id": b, "base_number": nbn, "base_kind": format!("{:?}", u.blks[b].kind), "number": n},
                                "got_id": format!("{:?}", got), "expected_id": want, "main_chain_block_at_n": main.get(n as usize), "tip": tip}));
            }
            coq_anc.push(format!("({}, {}, false, {})", coq_n(ids1(b)), coq_n(n as u128), coq_option(&got_id.map(ids1), |x| coq_n(*x))));
            // with_unverified
            let gotu = std::panic::catch_unwind(std::panic::AssertUnwindSafe(|| ac.get_ancestor_with_unverified(&hash, n)));
            let gotu = match gotu {
                Ok(g) => g.map(|v| (u.id_of(&v.hash()), v.number())),
                Err(_) => {
                    rep.viol("anc_panic", "ActiveChain::get_ancestor_with_unverified panics", json!({"query": {"base_id": b, "number": n}}));
                    continue;
                }
            };
            let gotu_id = gotu.and_then(|g| g.0);
            // the invariant under which the is_unverified_chain shortcut is right, evaluated on the node:
            // no block with an epoch index strictly below the base, at or above n and at or below the
            // unverified tip, unless the indexed block at n is the walk's answer anyway
            let mut inv = true;
            if let (Some(w), Some(m)) = (want, main.get(n as usize)) {
                if w != *m {
                    let mut x = b;
                    while u.number(x) > n {
                        x = u.blks[x].parent;
                        if u.number(x) <= utip && has_epoch[x] {
                            inv = false;
                        }
                    }
                }
            }
            let right = gotu.is_some() == want.is_some() && gotu_id == want;
            if n > utip || inv {
                rep.cx.count(if n > utip { "forks_unverified_queries_above_unverified_tip" } else { "forks_unverified_queries_invariant_holds" });
                if !right {
                    rep.viol("ancu", "ActiveChain::get_ancestor_with_unverified(base, n) is not the parent walk although n is above the unverified tip / no stored side block is on the way",
                             json!({"query": {"base_id": b, "base_number": nbn, "number": n, "with_unverified": true}, "got_id": format!("{:?}", gotu), "expected_id": want,
                                    "unverified_tip": utip, "tip": tip}));
                }
            } else {
                rep.cx.count("forks_unverified_queries_outside_invariant");
                if !right {
                    rep.cx.count("forks_unverified_queries_outside_invariant_answer_is_not_the_walk");
                }
            }
            coq_anc.push(format!("({}, {}, true, {})", coq_n(ids1(b)), coq_n(n as u128), coq_option(&gotu_id.map(ids1), |x| coq_n(*x))));
        }
    }

    // ---- get_locator ----
    let mut coq_loc = vec![];
    for b in 0..nb {
        let start: BlockNumberAndHash = (u.number(b), u.hash(b)).into();
        let loc = match std::panic::catch_unwind(std::panic::AssertUnwindSafe(|| ac.get_locator(start))) {
            Ok(l) => l,
            Err(_) => {
                rep.viol("loc_panic", "ActiveChain::get_locator panics (an ancestor of the start was not found)", json!({"query": {"start_id": b, "start_number": u.number(b)}}));
                continue;
            }
        };
        rep.cx.count("forks_locator_queries");
        let ids: Vec<Option<usize>> = loc.iter().map(|h| u.id_of(h)).collect();
        let mut ok = !ids.is_empty() && ids[0] == Some(b) && *ids.last().unwrap() == Some(0);
        let mut prev = u64::MAX;
        for id in &ids {
            match id {
                None => ok = false,
                Some(i) => {
                    let n = u.number(*i);
                    if u.walk(b, n) != Some(*i) || (prev != u64::MAX && n >= prev) {
                        ok = false;
                    }
                    prev = n;
                }
            }
        }
        if !ok {
            rep.viol("loc", "get_locator(start) does not list ancestors of start in descending order from start to genesis",
                     json!({"query": {"start_id": b, "start_number": u.number(b), "start_kind": format!("{:?}", u.blks[b].kind)}, "locator_ids": ids,
                            "locator_numbers": ids.iter().map(|i| i.map(|x| u.number(x))).collect::<Vec<_>>()}));
        }
        if ids.iter().all(|i| i.is_some()) {
            let l: Vec<u128> = ids.iter().map(|i| ids1(i.unwrap())).collect();
            coq_loc.push(format!("({}, {})", coq_n(ids1(b)), coq_list(&l, |x| coq_n(*x))));
        }
    }

    // ---- last_common_ancestor: branch ends against each other, and random pairs ----
    let mut coq_lca = vec![];
    let mut is_parent = vec![false; nb];
    for b in 1..nb {
        is_parent[u.blks[b].parent] = true;
    }
    let mut ends: Vec<usize> = (0..nb).filter(|i| !is_parent[*i]).collect();
    ends.push(main[tip as usize]);
    let mut pairs: Vec<(usize, usize)> = vec![];
    for a in &ends {
        for b in &ends {
            pairs.push((*a, *b));
        }
    }
    for _ in 0..120 {
        pairs.push((r.below(nb as u64) as usize, r.below(nb as u64) as usize));
    }
    for (a, b) in pairs {
        let pa: BlockNumberAndHash = (u.number(a), u.hash(a)).into();
        let pb: BlockNumberAndHash = (u.number(b), u.hash(b)).into();
        let got = match std::panic::catch_unwind(std::panic::AssertUnwindSafe(|| ac.last_common_ancestor(&pa, &pb))) {
            Ok(g) => g,
            Err(_) => {
                rep.viol("lca_panic", "ActiveChain::last_common_ancestor panics", json!({"query": {"a_id": a, "b_id": b}}));
                continue;
            }
        };
        rep.cx.count("forks_lca_queries");
        let want = u.lca(a, b);
        let got_id = got.as_ref().and_then(|g| u.id_of(&g.hash()));
        if got_id != Some(want) || got.as_ref().map(|g| g.number()) != Some(u.number(want)) {
            rep.viol("lca", "last_common_ancestor(a, b) is not the last block the parent walks from a and b share",
                     json!({"query": {"a_id": a, "a_number": u.number(a), "b_id": b, "b_number": u.number(b)}, "got_id": got_id, "expected_id": want}));
        }
        coq_lca.push(format!("({}, {}, {})", coq_n(ids1(a)), coq_n(ids1(b)), coq_option(&got_id.map(ids1), |x| coq_n(*x))));
    }
    rep.cx.evaluations += 1;
    rep.cx.distinct += 1;
    rep.cx.count("forks_universes");
    if to_coq {
        let main_s: Vec<String> = main.iter().enumerate().map(|(n, i)| format!("({}, {})", coq_n(n as u128), coq_n(ids1(*i)))).collect();
        let epoch_s: Vec<String> = (0..nb).filter(|i| has_epoch[*i]).map(|i| coq_n(ids1(i))).collect();
        let coq = format!("mkFork (mkUni [{}] [{}] [{}] {} {} [{}]) 1%N [{}] [{}] [{}]",
                          coq_map.join("; "), coq_store.join("; "), main_s.join("; "), coq_n(tip as u128), coq_n(utip as u128), epoch_s.join("; "),
                          coq_anc.join("; "), coq_loc.join("; "), coq_lca.join("; "));
        let case = rep.case.clone();
        rep.cx.case(G_FORK, coq, case);
        rep.cx.count("forks_coq_cases");
    }
}

fn sh_is_none(store: &ckb_store::ChainDB, h: &Byte32) -> bool {
    store.get_block_header(h).is_none()
}

fn skip_spec(h: u64) -> u64 {
    // "turn the lowest 1 bit into 0" (the comment in get_skip_height)
    fn clear(n: u64) -> u64 {
        if n == 0 { 0 } else { n & (n - 1) }
    }
    if h < 2 {
        0
    } else if h & 1 == 1 {
        clear(clear(h - 1)) + 1
    } else {
        clear(h)
    }
}

/// with_temp_db keeps every temp DB below one static TempDir for the life of the process
fn sweep_temp_dbs() {
    if let Ok(tmp) = std::env::var("TMPDIR") {
        for e in fs::read_dir(&tmp).into_iter().flatten().flatten() {
            for d in fs::read_dir(e.path()).into_iter().flatten().flatten() {
                if d.file_name().to_string_lossy().starts_with("db_") {
                    let _ = fs::remove_dir_all(d.path());
                }
            }
        }
    }
}

fn one(cx: &mut Ctx, useed: u64, seed: u64, consensus: &Consensus, to_coq: bool) {
    match std::panic::catch_unwind(std::panic::AssertUnwindSafe(|| build_universe(useed, consensus))) {
        Ok(Ok(u)) => {
            check_universe(cx, &u, useed, seed, to_coq);
            drop(u);
        }
        Ok(Err(e)) => cx.violation(format!("stored-forks: the universe could not be built on the node: {e}"),
                                   json!({"case": {"structure": "forks", "stream": "stored-forks", "seed": seed, "useed": useed}})),
        Err(p) => {
            let msg = p.downcast_ref::<String>().cloned().or_else(|| p.downcast_ref::<&str>().map(|s| s.to_string())).unwrap_or_default();
            cx.violation(format!("stored-forks: panic while building the universe: {msg}"),
                         json!({"case": {"structure": "forks", "stream": "stored-forks", "seed": seed, "useed": useed}}));
        }
    }
    sweep_temp_dbs();
}

pub fn run(cx: &mut Ctx) {
    let consensus = make_consensus();
    let seed = hx_common::seed();
    let n = if cx.thorough { 64 } else { 12 };
    for _ in 0..n {
        let useed = cx.rng.next();
        one(cx, useed, seed, &consensus, true);
    }
    // the stream is pointless if it never stood on a stored side branch above its fork point
    if cx.stats.get("forks_ancestor_queries_stored_side_base_above_fork").cloned().unwrap_or(0) == 0 {
        cx.violation("stored-forks: no query had a stored side-branch base with a height above the fork point (generator broken)".into(),
                     json!({"case": {"structure": "forks", "stream": "stored-forks", "seed": seed}}));
    }
}

pub fn replay(case: &Value, viol: &mut Vec<Violation>) {
    let useed = match case["useed"].as_u64() {
        Some(x) => x,
        None => {
            println!("no universe seed in the case");
            return;
        }
    };
    let mut cx = Ctx {
        rng: Rng::new(0),
        thorough: false,
        stats: BTreeMap::new(),
        viol: vec![],
        samples: vec![],
        evaluations: 0,
        distinct: 0,
        files: vec![],
        descs: vec![],
        next_shard: 0,
    };
    let consensus = make_consensus();
    one(&mut cx, useed, case["seed"].as_u64().unwrap_or(0), &consensus, false);
    println!("universe {useed}: {:?}", cx.stats);
    for v in cx.viol {
        println!("  {} :: {}", v.what, json!({"query": v.detail["query"], "got_id": v.detail["got_id"], "expected_id": v.detail["expected_id"]}));
        viol.push(v);
    }
}
