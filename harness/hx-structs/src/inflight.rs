//! In-flight download table: real `ckb_sync::InflightBlocks` (clock = faketime)
//! vs the partial map block => (peer, since).
use crate::*;
use ckb_network::PeerIndex;
use ckb_sync::InflightBlocks;
use ckb_types::BlockNumberAndHash;
use std::collections::{BTreeMap, BTreeSet};

pub type Key = (u64, u64); // block number, hash id

#[derive(Clone, Debug, PartialEq, Eq)]
pub enum Op {
    Insert(u64, u64, Key), // now, peer, block
    RemovePeer(u64),
    RemoveBlock(u64, Key),
    MarkSlow(u64, u64), // now, tip
    Prune(u64, u64),
    SetProtect(u64),
}

fn bnh(k: &Key) -> BlockNumberAndHash {
    BlockNumberAndHash::new(k.0, crate::orphan::hash_of(k.1))
}
fn key_of(b: &BlockNumberAndHash) -> Key {
    (b.number(), crate::orphan::id_of(&b.hash()))
}
fn key_coq(k: &Key) -> String {
    format!("({}, {})", coq_n(k.0 as u128), coq_n(k.1 as u128))
}
fn op_coq(o: &Op) -> String {
    match o {
        Op::Insert(t, p, b) => format!("IInsert {} {} {}", coq_n(*t as u128), coq_n(*p as u128), key_coq(b)),
        Op::RemovePeer(p) => format!("IRemoveByPeer {}", coq_n(*p as u128)),
        Op::RemoveBlock(t, b) => format!("IRemoveByBlock {} {}", coq_n(*t as u128), key_coq(b)),
        Op::MarkSlow(t, tip) => format!("IMarkSlow {} {}", coq_n(*t as u128), coq_n(*tip as u128)),
        Op::Prune(t, tip) => format!("IPrune {} {}", coq_n(*t as u128), coq_n(*tip as u128)),
        Op::SetProtect(n) => format!("ISetProtect {}", coq_n(*n as u128)),
    }
}
fn op_json(o: &Op) -> Value {
    match o {
        Op::Insert(t, p, b) => json!(["insert", t, p, b.0, b.1]),
        Op::RemovePeer(p) => json!(["remove_by_peer", p]),
        Op::RemoveBlock(t, b) => json!(["remove_by_block", t, b.0, b.1]),
        Op::MarkSlow(t, tip) => json!(["mark_slow_block", t, tip]),
        Op::Prune(t, tip) => json!(["prune", t, tip]),
        Op::SetProtect(n) => json!(["set_protect_num", n]),
    }
}
fn op_parse(v: &Value) -> Op {
    let a = v.as_array().unwrap();
    let n = |i: usize| a[i].as_u64().unwrap();
    match a[0].as_str().unwrap() {
        "insert" => Op::Insert(n(1), n(2), (n(3), n(4))),
        "remove_by_peer" => Op::RemovePeer(n(1)),
        "remove_by_block" => Op::RemoveBlock(n(1), (n(2), n(3))),
        "mark_slow_block" => Op::MarkSlow(n(1), n(2)),
        "prune" => Op::Prune(n(1), n(2)),
        _ => Op::SetProtect(n(1)),
    }
}

#[derive(Clone, Debug)]
pub enum Ret {
    Bool(bool),
    Count(usize),
    Peers(Vec<u64>),
    Unit,
}
#[derive(Clone, Debug)]
pub struct Obs {
    ret: Ret,
    scheds: Vec<(u64, u64, Vec<Key>)>,
    states: Vec<(Key, u64, u64)>,
    trace: Vec<(Key, u64)>,
    restart: u64,
}
fn obs_coq(o: &Obs) -> String {
    let ret = match &o.ret {
        Ret::Bool(b) => format!("(RBool {})", coq_bool(*b)),
        Ret::Count(n) => format!("(RCount {})", coq_nat(*n as u64)),
        Ret::Peers(l) => format!("(RPeers {})", coq_list(l, |x| coq_n(*x as u128))),
        Ret::Unit => "RUnit".into(),
    };
    format!(
        "mkIObs {} {} {} {} {}",
        ret,
        coq_list(&o.scheds, |(p, t, h)| format!("({}, {}, {})", coq_n(*p as u128), coq_n(*t as u128), coq_list(h, key_coq))),
        coq_list(&o.states, |(k, p, t)| format!("({}, {}, {})", key_coq(k), coq_n(*p as u128), coq_n(*t as u128))),
        coq_list(&o.trace, |(k, t)| format!("({}, {})", key_coq(k), coq_n(*t as u128))),
        coq_n(o.restart as u128)
    )
}
fn obs_json(o: &Obs) -> Value {
    json!({"ret": format!("{:?}", o.ret), "schedulers": o.scheds, "states": o.states, "trace": o.trace, "restart_number": o.restart})
}

fn observe(t: &InflightBlocks, ret: Ret) -> Obs {
    let d = t.verif_dump();
    let mut scheds: Vec<(u64, u64, Vec<Key>)> = d
        .schedulers
        .iter()
        .map(|(p, tc, hs)| {
            let mut h: Vec<Key> = hs.iter().map(key_of).collect();
            h.sort();
            (p.value() as u64, *tc as u64, h)
        })
        .collect();
    scheds.sort();
    let states: Vec<(Key, u64, u64)> = d.states.iter().map(|(b, p, ts)| (key_of(b), p.value() as u64, *ts)).collect();
    let mut trace: Vec<(Key, u64)> = d.trace.iter().map(|(b, t)| (key_of(b), *t)).collect();
    trace.sort();
    Obs { ret, scheds, states, trace, restart: d.restart_number }
}

pub const F5_SIGNATURE: &str = "inflight-prune-evicts-peer-keeps-its-requests";

pub fn run_ops(ops: &[Op], viol: &mut Vec<Violation>, ctx: &Value) -> Vec<Obs> {
    let clock = ckb_systemtime::faketime();
    clock.set_faketime(0);
    let mut t = InflightBlocks::default();
    let mut spec: BTreeMap<Key, (u64, u64)> = BTreeMap::new();
    let mut out: Vec<Obs> = Vec::new();
    let mut push = |what: String, step: usize, extra: Value, sig: Option<&str>| {
        if viol.len() < 200 {
            viol.push(Violation { what, detail: json!({"case": ctx, "step": step, "info": extra}), signature: sig.map(|s| s.to_string()) });
        }
    };
    for (step, op) in ops.iter().enumerate() {
        let pre = observe(&t, Ret::Unit);
        let low = t.division_point().2;
        let ret = match op {
            Op::Insert(now, p, b) => {
                clock.set_faketime(*now);
                Ret::Bool(t.insert(PeerIndex::new(*p as usize), bnh(b)))
            }
            Op::RemovePeer(p) => Ret::Count(t.remove_by_peer(PeerIndex::new(*p as usize))),
            Op::RemoveBlock(now, b) => {
                clock.set_faketime(*now);
                Ret::Bool(t.remove_by_block(bnh(b)))
            }
            Op::MarkSlow(now, tip) => {
                clock.set_faketime(*now);
                t.mark_slow_block(*tip);
                Ret::Unit
            }
            Op::Prune(now, tip) => {
                clock.set_faketime(*now);
                let mut l: Vec<u64> = t.prune(*tip).iter().map(|p| p.value() as u64).collect();
                l.sort();
                Ret::Peers(l)
            }
            Op::SetProtect(n) => {
                t.verif_set_protect_num(*n as usize);
                Ret::Unit
            }
        };
        let o = observe(&t, ret.clone());
        // ---- release / assignment exactness against the partial map ------------
        match (op, &ret) {
            (Op::Insert(now, p, b), Ret::Bool(r)) => {
                if *r != !spec.contains_key(b) {
                    push("insert must succeed exactly when the block is not in flight".into(), step, obs_json(&o), None);
                }
                if !spec.contains_key(b) {
                    spec.insert(*b, (*p, *now));
                }
            }
            (Op::RemoveBlock(_, b), Ret::Bool(r)) => {
                if *r != spec.contains_key(b) {
                    push("remove_by_block must report exactly whether the block was in flight".into(), step, obs_json(&o), None);
                }
                spec.remove(b);
            }
            (Op::RemovePeer(p), Ret::Count(c)) => {
                let owned = spec.values().filter(|v| v.0 == *p).count();
                if *c != owned {
                    push("remove_by_peer does not release exactly the requests of the leaving peer".into(), step,
                         json!({"released": c, "owned": owned, "after": obs_json(&o)}), None);
                }
                spec.retain(|_, v| v.0 != *p);
            }
            (Op::Prune(now, tip), Ret::Peers(gone)) => {
                let t1: BTreeSet<Key> = pre.states.iter().filter(|(k, _, ts)| k.0 <= tip + 20 && ts + 30_000 < *now).map(|x| x.0).collect();
                let t2: BTreeSet<Key> = pre.states.iter().filter(|(_, p, _)| gone.contains(p)).map(|x| x.0).collect();
                let t3: BTreeSet<Key> = pre.trace.iter().filter(|(k, m)| !t1.contains(k) && !t2.contains(k) && *now > low + m && spec.contains_key(k)).map(|x| x.0).collect();
                let post: BTreeSet<Key> = o.states.iter().map(|x| x.0).collect();
                let want: BTreeSet<Key> = spec.keys().filter(|k| !t1.contains(k) && !t2.contains(k) && !t3.contains(k)).cloned().collect();
                if post != want {
                    let only_evicted = post.iter().all(|k| want.contains(k) || t2.contains(k)) && want.iter().all(|k| post.contains(k));
                    if only_evicted {
                        push("prune evicts a peer but keeps its fresh requests in flight (nobody can be asked for these blocks until they time out)".into(),
                             step, json!({"evicted": gone, "still_in_flight": post.difference(&want).collect::<Vec<_>>(), "after": obs_json(&o)}), Some(F5_SIGNATURE));
                    } else {
                        push("prune does not release exactly the timed-out / restarted / evicted requests".into(), step,
                             json!({"expected_in_flight": want, "after": obs_json(&o)}), None);
                    }
                }
                spec.retain(|k, _| post.contains(k));
            }
            _ => {}
        }
        let got: Vec<(Key, u64, u64)> = o.states.clone();
        let want: Vec<(Key, u64, u64)> = spec.iter().map(|(k, v)| (*k, v.0, v.1)).collect();
        if got != want {
            push("the in-flight states are not the partial map block => (peer, since) the operations define".into(), step,
                 json!({"expected": want, "after": obs_json(&o)}), None);
            spec = got.iter().map(|(k, p, ts)| (*k, (*p, *ts))).collect();
        }
        // ---- invariants ------------------------------------------------------------
        let mut listed: BTreeMap<Key, u64> = BTreeMap::new();
        for (p, _, hs) in &o.scheds {
            for h in hs {
                if let Some(q) = listed.insert(*h, *p) {
                    push("a block is assigned to two peers at once".into(), step, json!({"block": h, "peers": [q, p]}), None);
                }
                match spec.get(h) {
                    Some((owner, _)) if owner == p => {}
                    other => push("a block listed for a peer is not in flight from exactly that peer".into(), step,
                                  json!({"block": h, "listed_for": p, "state": other, "after": obs_json(&o)}), None),
                }
            }
            if t.peer_inflight_count(PeerIndex::new(*p as usize)) != hs.len() {
                push("peer_inflight_count disagrees with the listed blocks".into(), step, json!({"peer": p}), None);
            }
        }
        for (k, (p, _)) in &spec {
            if listed.get(k) != Some(p) {
                push("a block in flight from a peer is not listed for that peer (remove_by_peer cannot release it)".into(), step,
                     json!({"block": k, "owner": p, "after": obs_json(&o)}), Some(F5_SIGNATURE));
            }
        }
        if t.total_inflight_count() != spec.len() {
            push("total_inflight_count is not the number of blocks in flight".into(), step, json!({"after": obs_json(&o)}), None);
        }
        out.push(o);
    }
    drop(clock);
    out
}

fn emit(cx: &mut Ctx, ops: &[Op], to_coq: bool, stream: &str) {
    let ctx = json!({"structure": "inflight", "stream": stream, "ops": ops.iter().map(op_json).collect::<Vec<_>>()});
    let mut v = std::mem::take(&mut cx.viol);
    let obs = run_ops(ops, &mut v, &ctx);
    cx.viol = v;
    cx.evaluations += 1;
    if ops.iter().filter(|o| !matches!(o, Op::SetProtect(_))).count() >= 2 {
        cx.distinct += 1;
    }
    for o in &obs {
        if let Ret::Peers(l) = &o.ret {
            if !l.is_empty() {
                cx.count("inflight_prunes_evicting_a_peer");
            }
        }
    }
    if to_coq {
        let mut d = ctx.clone();
        d["observed"] = json!(obs.iter().map(obs_json).collect::<Vec<_>>());
        if cx.samples.len() < 2 {
            cx.samples.push(d.clone());
        }
        cx.case(G_INFLIGHT, format!("mkICase {} {}", coq_list(ops, op_coq), coq_list(&obs, obs_coq)), d);
        cx.count("inflight_coq_cases");
    }
}

/// the F5 witness: three stale and two fresh requests of peer 1, one prune
pub fn f5_witness() -> Vec<Op> {
    vec![
        Op::SetProtect(0),
        Op::Insert(0, 1, (1, 1)),
        Op::Insert(0, 1, (2, 2)),
        Op::Insert(0, 1, (3, 3)),
        Op::Insert(30_001, 1, (4, 4)),
        Op::Insert(30_001, 1, (5, 5)),
        Op::Insert(30_001, 2, (6, 6)),
        Op::Prune(30_001, 0),
        Op::RemovePeer(1),
        Op::Insert(30_002, 3, (4, 4)),
    ]
}

pub fn run(cx: &mut Ctx) {
    emit(cx, &f5_witness(), true, "corpus-F5");
    // ---- bounded-exhaustive: 3 blocks x 2 peers, every sequence up to length L;
    //      a "tick" moves the clock past the download timeout
    let blocks: [Key; 3] = [(1, 1), (2, 2), (30, 3)];
    #[derive(Clone, Copy)]
    enum A {
        Ins(u64, usize),
        RmP(u64),
        RmB(usize),
        Prune,
        Mark,
        Tick,
    }
    let mut alphabet: Vec<A> = Vec::new();
    for p in [1u64, 2] {
        for b in 0..3 {
            alphabet.push(A::Ins(p, b));
        }
        alphabet.push(A::RmP(p));
    }
    for b in 0..3 {
        alphabet.push(A::RmB(b));
    }
    alphabet.push(A::Prune);
    alphabet.push(A::Mark);
    alphabet.push(A::Tick);
    let k = alphabet.len() as u64;
    let len_max = if cx.thorough { 6 } else { 5 };
    let mut n = 0u64;
    for len in 1..=len_max {
        for code in 0..k.pow(len) {
            let mut c = code;
            let mut now = 1000u64;
            let mut ops = vec![Op::SetProtect(0)];
            let mut last_tick = false;
            for _ in 0..len {
                let a = alphabet[(c % k) as usize];
                c /= k;
                last_tick = false;
                match a {
                    A::Ins(p, b) => ops.push(Op::Insert(now, p, blocks[b])),
                    A::RmP(p) => ops.push(Op::RemovePeer(p)),
                    A::RmB(b) => ops.push(Op::RemoveBlock(now + 700, blocks[b])),
                    A::Prune => ops.push(Op::Prune(now, 0)),
                    A::Mark => ops.push(Op::MarkSlow(now, 1)),
                    A::Tick => {
                        now += 30_001;
                        last_tick = true;
                    }
                }
            }
            if last_tick || (len > 1 && !matches!(ops[1], Op::Insert(..))) {
                continue; // covered by a shorter sequence
            }
            n += 1;
            let to_coq = len == len_max && n % (if cx.thorough { 9000 } else { 700 }) == 0;
            emit(cx, &ops, to_coq, "exhaustive-3x2");
            cx.count("inflight_seq_exhaustive");
        }
    }
    // ---- random long sequences: 7 blocks x 4 peers, punishment on and off, marks and restarts
    let n_rand = if cx.thorough { 6000 } else { 500 };
    for i in 0..n_rand {
        let nb = cx.rng.range(4, 7);
        let blocks: Vec<Key> = (0..nb).map(|j| (if cx.rng.chance(1, 5) { 25 + j } else { 1 + j / 2 }, j + 1)).collect();
        let np = cx.rng.range(2, 4);
        let mut now = 500u64;
        let mut ops = Vec::new();
        if i % 3 != 0 {
            ops.push(Op::SetProtect(*cx.rng.pick(&[0u64, 1, 2])));
        }
        let nops = cx.rng.range(12, 60);
        for _ in 0..nops {
            now += *cx.rng.pick(&[0u64, 1, 400, 1100, 1300, 1600, 15_000, 30_000, 30_001]);
            let r = cx.rng.below(100);
            let b = *cx.rng.pick(&blocks);
            let p = cx.rng.range(1, np);
            ops.push(if r < 45 {
                Op::Insert(now, p, b)
            } else if r < 62 {
                Op::RemoveBlock(now, b)
            } else if r < 70 {
                Op::RemovePeer(p)
            } else if r < 88 {
                Op::Prune(now, *cx.rng.pick(&[0u64, 1, 4, 5, 6, 30]))
            } else {
                Op::MarkSlow(now, *cx.rng.pick(&[0u64, 1, 2, 24, 30]))
            });
        }
        emit(cx, &ops, true, "random");
        cx.count("inflight_seq_random");
    }
    // ---- one long run through two TimeAnalyzer windows (512 samples each)
    if cx.thorough || true {
        let mut ops = vec![Op::SetProtect(0)];
        let mut now = 0u64;
        for i in 0..1100u64 {
            let p = 1 + i % 3;
            ops.push(Op::Insert(now, p, (1, 1)));
            now += (i * 37) % 2600;
            ops.push(Op::RemoveBlock(now, (1, 1)));
        }
        emit(cx, &ops, true, "time-analyzer-windows");
        cx.count("inflight_seq_long");
    }
}

pub fn replay(case: &Value, viol: &mut Vec<Violation>) {
    let ops: Vec<Op> = case["ops"].as_array().unwrap().iter().map(op_parse).collect();
    let obs = run_ops(&ops, viol, case);
    if let Some(o) = obs.last() {
        println!("last observation: {}", obs_json(o));
    }
}
