//! ActiveChain::get_locator / get_ancestor on a real SyncShared whose header map
//! holds header-only chains (inserted with insert_valid_header, which runs build_skip).
use crate::*;
use ckb_chain_spec::consensus::Consensus;
use ckb_network::PeerIndex;
use ckb_shared::SharedBuilder;
use ckb_sync::SyncShared;
use ckb_types::core::{EpochNumberWithFraction, HeaderBuilder, HeaderView};
use ckb_types::packed::Byte32;
use std::collections::HashMap;

struct Net {
    sync: SyncShared,
    /// id -> (header, parent id); id 0 = genesis
    hs: Vec<(HeaderView, usize)>,
    by_hash: HashMap<Byte32, usize>,
    _pack: ckb_shared::SharedPackage,
}

fn build(lens: &[(usize, usize)]) -> Net {
    // lens: (fork point id, number of headers to append below it)
    let (shared, mut pack) = SharedBuilder::with_temp_db().consensus(Consensus::default()).build().unwrap();
    let sync = SyncShared::new(shared.clone(), Default::default(), pack.take_relay_tx_receiver());
    let genesis = shared.consensus().genesis_block().header();
    let mut net = Net { sync, hs: vec![(genesis.clone(), usize::MAX)], by_hash: HashMap::new(), _pack: pack };
    net.by_hash.insert(genesis.hash(), 0);
    for (from, n) in lens {
        let mut pid = *from;
        for _ in 0..*n {
            let parent = net.hs[pid].0.clone();
            let number = parent.number() + 1;
            let h = HeaderBuilder::default()
                .parent_hash(parent.hash())
                .number(number)
                .timestamp(parent.timestamp() + 1 + (*from as u64))
                .epoch(EpochNumberWithFraction::new(number / 1000, number % 1000, 1000))
                .compact_target(genesis.compact_target())
                .build();
            net.sync.insert_valid_header(PeerIndex::new(1), &h);
            let id = net.hs.len();
            net.by_hash.insert(h.hash(), id);
            net.hs.push((h, pid));
            pid = id;
        }
    }
    net
}

impl Net {
    fn walk(&self, mut id: usize, number: u64) -> Option<usize> {
        if number > self.hs[id].0.number() {
            return None;
        }
        while self.hs[id].0.number() > number {
            id = self.hs[id].1;
        }
        Some(id)
    }
    fn coq_chain(&self) -> String {
        let hm = self.sync.shared().header_map();
        let hdrs: Vec<String> = self.hs.iter().enumerate().map(|(i, (h, p))| {
            let skip = hm.get(&h.hash()).and_then(|v| v.skip_hash().map(|s| self.by_hash[s] as u128 + 1));
            format!("({}, mkHdr {} {} {} {})", coq_n(i as u128 + 1), coq_n(i as u128 + 1), coq_n(h.number() as u128),
                    coq_n(if *p == usize::MAX { 0 } else { *p as u128 + 1 }), coq_option(&skip, |x| coq_n(*x)))
        }).collect();
        format!("mkChain [{}] [(0%N, 1%N)] 0%N", hdrs.join("; "))
    }
}

fn check(cx: &mut Ctx, net: &Net, starts: &[usize], to_coq: bool, stream: &str) {
    let ac = net.sync.active_chain();
    let chain = if to_coq { net.coq_chain() } else { String::new() };
    for s in starts {
        let h = &net.hs[*s].0;
        let ctx = json!({"structure": "locator", "stream": stream, "headers": net.hs.len(), "start_id": s, "start_number": h.number()});
        let loc = ac.get_locator((h.number(), h.hash()).into());
        cx.count("locator_queries");
        cx.evaluations += 1;
        cx.distinct += 1;
        // every entry is the header reached from `start` by walking parent links to its own height
        let ids: Vec<Option<usize>> = loc.iter().map(|x| net.by_hash.get(x).cloned()).collect();
        let mut ok = !loc.is_empty() && ids[0] == Some(*s) && ids.last().cloned().flatten() == Some(0);
        let mut prev = u64::MAX;
        for id in &ids {
            match id {
                None => ok = false,
                Some(i) => {
                    let n = net.hs[*i].0.number();
                    if net.walk(*s, n) != Some(*i) || (prev != u64::MAX && n >= prev) {
                        ok = false;
                    }
                    prev = n;
                }
            }
        }
        if !ok {
            cx.violation("get_locator lists a header that is not the ancestor of the start found by walking parent links (or not start-first / genesis-last / descending)".into(),
                         json!({"case": ctx, "locator_ids": ids}));
        }
        // get_ancestor through the real header map as well
        for n in [0u64, 1, h.number() / 2, h.number().saturating_sub(1), h.number(), h.number() + 1] {
            let got = ac.get_ancestor(&h.hash(), n).map(|v| net.by_hash[&v.hash()]);
            if got != net.walk(*s, n) {
                cx.violation("ActiveChain::get_ancestor differs from walking parent links".into(), json!({"case": ctx, "number": n, "got": got}));
            }
        }
        if to_coq {
            let l: Vec<u128> = ids.iter().map(|i| i.map(|x| x as u128 + 1).unwrap_or(0)).collect();
            cx.case(G_LOC, format!("mkLoc ({}) 1%N ({}, {}) {}", chain, coq_n(h.number() as u128), coq_n(*s as u128 + 1), coq_list(&l, |x| coq_n(*x))),
                    json!({"structure": "locator", "stream": stream, "start_id": s, "locator_ids": ids}));
            cx.count("locator_coq_cases");
        }
    }
}

pub fn run(cx: &mut Ctx) {
    // a chain of 300 with a fork of 40 below header 250: model-compared
    let net = build(&[(0, 300), (250, 40)]);
    let mut starts: Vec<usize> = vec![0, 1, 2, 9, 10, 11, 12, 25, 26, 100, 255, 299, 300, 301, 320, 340];
    for _ in 0..8 {
        starts.push(cx.rng.below(341) as usize);
    }
    check(cx, &net, &starts, true, "chain-300-fork");
    drop(net);
    // a long chain: the "index > ONE_DAY_BLOCK_NUMBER" branch of get_locator (predicate only)
    let n = if cx.thorough { 70_000 } else { 40_000 };
    let net = build(&[(0, n), (n - 100, 50)]);
    let mut starts: Vec<usize> = vec![n, n - 1, n + 50, 8192, 8193, 16384, 16385, 20_000, 33_000];
    for _ in 0..(if cx.thorough { 200 } else { 30 }) {
        starts.push(cx.rng.below(n as u64 + 51) as usize);
    }
    check(cx, &net, &starts, false, "chain-long");
}
