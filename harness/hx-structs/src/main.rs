//! C17 correspondence harness: drives the real OrphanBlockPool (ckb-chain),
//! InflightBlocks (ckb-sync), HeaderMap and HeaderIndexView skip list
//! (ckb-shared), ActiveChain::get_locator / get_ancestor / last_common_ancestor (header-only
//! chains, and a real node with stored side branches) on bounded-exhaustive and random
//! operation sequences, evaluates the property predicate directly against a
//! simple specification written from the property text, and writes the same
//! sequences with the observed answers as Coq cases for the models in
//! coq/Structs to re-compute.
use hx_common::*;
use serde_json::{json, Value};
use std::collections::BTreeMap;
use std::fs;

mod forks;
mod hmap;
mod inflight;
mod locator;
mod orphan;
mod skip;

pub struct Violation {
    pub what: String,
    pub detail: Value,
    pub signature: Option<String>,
}

/// everything a structure module produces
pub struct Ctx {
    pub rng: Rng,
    pub thorough: bool,
    pub stats: BTreeMap<String, u64>,
    pub viol: Vec<Violation>,
    pub samples: Vec<Value>,
    pub evaluations: u64,
    pub distinct: u64,
    pub files: Vec<CaseFile>,
    pub descs: Vec<BTreeMap<String, Vec<Value>>>,
    pub next_shard: usize,
}
pub const G_ORPHAN: usize = 0;
pub const G_SKIPH: usize = 1;
pub const G_INFLIGHT: usize = 2;
pub const G_HMAP: usize = 3;
pub const G_ANC: usize = 4;
pub const G_LOC: usize = 5;
pub const G_FORK: usize = 6;
const GROUPS: [(&str, &str, &str); 7] = [
    ("orphan", "orphan_case", "check_orphan"),
    ("skiph", "N * option N", "check_skip_height"),
    ("inflight", "inflight_case", "check_inflight"),
    ("hmap", "hmap_case", "check_hmap"),
    ("anc", "anc_case", "check_anc"),
    ("loc", "loc_case", "check_loc"),
    ("fork", "fork_case", "check_fork"),
];
/// groups (in the order above) whose model exists
pub const ACTIVE_GROUPS: usize = 7;
const HEADERS: [&str; 7] = [
    "From CKB Require Import Structs.AList Structs.Orphan.",
    "From CKB Require Import Structs.AList Structs.Orphan Structs.Skip.",
    "From CKB Require Import Structs.AList Structs.Orphan Structs.Skip Structs.Inflight.",
    "From CKB Require Import Structs.AList Structs.Orphan Structs.Skip Structs.Inflight Structs.HeaderMap.",
    "From CKB Require Import Structs.AList Structs.Orphan Structs.Skip Structs.Inflight Structs.HeaderMap.",
    "From CKB Require Import Structs.AList Structs.Orphan Structs.Skip Structs.Inflight Structs.HeaderMap.",
    "From CKB Require Import Structs.AList Structs.Orphan Structs.Skip Structs.Inflight Structs.HeaderMap Structs.ActiveChain.",
];
impl Ctx {
    pub fn count(&mut self, k: &str) {
        *self.stats.entry(k.to_string()).or_default() += 1;
    }
    pub fn count_n(&mut self, k: &str, n: u64) {
        *self.stats.entry(k.to_string()).or_default() += n;
    }
    /// add a Coq case (round-robin over the shards)
    pub fn case(&mut self, group: usize, coq: String, desc: Value) {
        if group >= ACTIVE_GROUPS {
            return;
        }
        let sh = self.next_shard % self.files.len();
        self.next_shard += 1;
        self.files[sh].push(group, coq);
        self.descs[sh].entry(GROUPS[group].0.to_string()).or_default().push(desc);
    }
    pub fn violation(&mut self, what: String, detail: Value) {
        if self.viol.len() < 200 {
            self.viol.push(Violation { what, detail, signature: None });
        }
    }
}

fn replay(path: &str) -> ! {
    let v: Value = serde_json::from_str(&fs::read_to_string(path).unwrap()).unwrap();
    let case = if let Some(vs) = v.get("violations") { vs[0]["detail"]["case"].clone() } else { v["cases"][0]["case"].clone() };
    let mut viol: Vec<Violation> = Vec::new();
    let st = case["structure"].as_str().unwrap_or("");
    let scratch = scratch_dir("C17");
    std::env::set_var("TMPDIR", &scratch);
    println!("replaying a {} case: {}", st, case);
    match st {
        "orphan" => orphan::replay(&case, &mut viol),
        "inflight" => inflight::replay(&case, &mut viol),
        "hmap" => hmap::replay(&case, &mut viol),
        "skip_height" | "ancestor" | "locator" => skip::replay(&case, &mut viol),
        "forks" => forks::replay(&case, &mut viol),
        _ => println!("unknown structure"),
    }
    let _ = fs::remove_dir_all(&scratch);
    for x in &viol {
        println!("PROPERTY VIOLATED: {} :: {}", x.what, x.detail);
    }
    std::process::exit(if viol.is_empty() { 0 } else { 1 })
}

fn main() {
    if let Ok(p) = std::env::var("HX_REPLAY") {
        replay(&p);
    }
    let seed = seed();
    let thorough = tier_is_thorough();
    let out = out_dir("C17");
    for e in fs::read_dir(&out).unwrap().flatten() {
        let n = e.file_name().to_string_lossy().to_string();
        if n.starts_with("cases_") || n == "summary.json" {
            let _ = fs::remove_file(e.path());
        }
    }
    let shards = 16usize;
    let header = HEADERS[ACTIVE_GROUPS - 1];
    let files: Vec<CaseFile> = (0..shards)
        .map(|i| {
            let mut cf = CaseFile::new(&out, &format!("cases_{:02}", i), header);
            for (l, t, c) in GROUPS.iter().take(ACTIVE_GROUPS) {
                cf.group(l, t, c);
            }
            cf
        })
        .collect();
    let mut cx = Ctx {
        rng: Rng::new(seed),
        thorough,
        stats: BTreeMap::new(),
        viol: vec![],
        samples: vec![],
        evaluations: 0,
        distinct: 0,
        files,
        descs: (0..shards).map(|_| BTreeMap::new()).collect(),
        next_shard: 0,
    };
    // every temporary directory (sled backend of the header map, temp chain db) goes below /verif/work
    let scratch = scratch_dir("C17");
    std::env::set_var("TMPDIR", &scratch);
    let only = std::env::var("HX_ONLY").unwrap_or_default();
    let want = |s: &str| only.is_empty() || only.split(',').any(|x| x == s);
    let t0 = std::time::Instant::now();
    let mut timing = BTreeMap::new();
    macro_rules! part {
        ($name:expr, $f:expr) => {
            if want($name) {
                let t = std::time::Instant::now();
                let r = std::panic::catch_unwind(std::panic::AssertUnwindSafe(|| $f(&mut cx)));
                if let Err(e) = r {
                    let msg = e.downcast_ref::<String>().cloned().or_else(|| e.downcast_ref::<&str>().map(|s| s.to_string())).unwrap_or_default();
                    cx.violation(format!("panic in the {} part: {}", $name, msg), json!({"case": {"structure": $name}}));
                }
                timing.insert($name.to_string(), t.elapsed().as_millis() as u64);
            }
        };
    }
    part!("orphan", orphan::run);
    part!("skip", skip::run);
    part!("inflight", inflight::run);
    part!("hmap", hmap::run);
    part!("locator", locator::run);
    part!("forks", forks::run);

    let _ = fs::remove_dir_all(&scratch);
    for (i, cf) in cx.files.iter().enumerate() {
        cf.write().unwrap();
        fs::write(out.join(format!("cases_{:02}.json", i)), serde_json::to_string(&cx.descs[i]).unwrap()).unwrap();
    }
    let summary = json!({
        "property": "C17",
        "seed": seed,
        "evaluations": cx.evaluations,
        "distinct_nontrivial": cx.distinct,
        "rule": "one evaluation = one operation sequence (orphan pool / in-flight table / header map with spill placements) or one ancestor/locator/skip-height query batch, run on the real structure with the property predicate evaluated after every operation; distinct_nontrivial counts sequences that are pairwise different as (universe, op list) and contain at least two state-changing operations",
        "distribution": cx.stats,
        "samples": cx.samples,
        "impl_violations": cx.viol.iter().map(|v| {
            let mut j = json!({"what": v.what, "detail": v.detail});
            if let Some(s) = &v.signature { j["signature"] = json!(s); }
            j
        }).collect::<Vec<_>>(),
        "extra_coverage": {"part_millis": timing, "harness_millis": t0.elapsed().as_millis() as u64},
    });
    fs::write(out.join("summary.json"), serde_json::to_string_pretty(&summary).unwrap()).unwrap();
    println!("hx-structs: {} evaluations, {} implementation-side violations, {:?}", cx.evaluations, cx.viol.len(), timing);
}
