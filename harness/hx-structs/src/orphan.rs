//! Orphan block pool: real `ckb_chain::OrphanBlockPool` vs the set specification.
use crate::*;
use ckb_chain::{LonelyBlockHash, OrphanBlockPool};
use ckb_types::{packed::Byte32, prelude::*, BlockNumberAndHash};
use std::collections::{BTreeMap, BTreeSet};

#[derive(Clone, Debug, PartialEq, Eq)]
pub enum Op {
    Insert(u64, u64, u64), // id, parent, epoch
    Remove(u64),
    Clean(u64),
}

pub fn hash_of(id: u64) -> Byte32 {
    let mut b = [0u8; 32];
    b[0..8].copy_from_slice(&id.to_le_bytes());
    b[31] = 0xc1;
    Byte32::new(b)
}
pub fn id_of(h: &Byte32) -> u64 {
    u64::from_le_bytes(h.as_slice()[0..8].try_into().unwrap())
}

fn op_coq(o: &Op) -> String {
    match o {
        Op::Insert(i, p, e) => format!("OInsert (mkBlk {} {} {})", coq_n(*i as u128), coq_n(*p as u128), coq_n(*e as u128)),
        Op::Remove(p) => format!("ORemoveByParent {}", coq_n(*p as u128)),
        Op::Clean(t) => format!("OCleanExpired {}", coq_n(*t as u128)),
    }
}
fn op_json(o: &Op) -> Value {
    match o {
        Op::Insert(i, p, e) => json!(["insert", i, p, e]),
        Op::Remove(p) => json!(["remove_by_parent", p]),
        Op::Clean(t) => json!(["clean_expired", t]),
    }
}
fn op_parse(v: &Value) -> Op {
    let a = v.as_array().unwrap();
    let n = |i: usize| a[i].as_u64().unwrap();
    match a[0].as_str().unwrap() {
        "insert" => Op::Insert(n(1), n(2), n(3)),
        "remove_by_parent" => Op::Remove(n(1)),
        _ => Op::Clean(n(1)),
    }
}

#[derive(Clone, Debug)]
pub struct Obs {
    len: usize,
    leaders: Vec<u64>,
    ret: Vec<(u64, u64, u64)>,
}
fn obs_coq(o: &Obs) -> String {
    format!(
        "mkOObs {} {} {}",
        coq_nat(o.len as u64),
        coq_list(&o.leaders, |x| coq_n(*x as u128)),
        coq_list(&o.ret, |(i, p, e)| format!("mkBlk {} {} {}", coq_n(*i as u128), coq_n(*p as u128), coq_n(*e as u128)))
    )
}
fn obs_json(o: &Obs) -> Value {
    json!({"len": o.len, "leaders": o.leaders, "returned": o.ret})
}

fn descendants(s: &BTreeMap<u64, (u64, u64)>, p: u64) -> BTreeSet<u64> {
    let mut out = BTreeSet::new();
    let mut grew = true;
    while grew {
        grew = false;
        for (id, (par, _)) in s.iter() {
            if !out.contains(id) && (*par == p || out.contains(par)) {
                out.insert(*id);
                grew = true;
            }
        }
    }
    out
}

/// runs the ops on the real pool; the property predicate is evaluated after
/// every op against the set `spec` (id -> (parent, epoch)).
/// Returns the observations and whether `clean_expired` ever met siblings of
/// different epochs (then the HashMap order decides and the model is not compared).
pub fn run_ops(ops: &[Op], viol: &mut Vec<Violation>, ctx: &Value) -> (Vec<Obs>, bool) {
    let pool = OrphanBlockPool::with_capacity(8);
    let mut spec: BTreeMap<u64, (u64, u64)> = BTreeMap::new();
    let mut out = Vec::new();
    let mut ambiguous = false;
    let mut push = |what: String, step: usize, extra: Value| {
        if viol.len() < 200 {
            viol.push(Violation { what, detail: json!({"case": ctx, "step": step, "info": extra}), signature: None });
        }
    };
    for (step, op) in ops.iter().enumerate() {
        let ret: Vec<(u64, u64, u64)> = match op {
            Op::Insert(i, p, e) => {
                pool.insert(LonelyBlockHash {
                    block_number_and_hash: BlockNumberAndHash::new(*i, hash_of(*i)),
                    parent_hash: hash_of(*p),
                    epoch_number: *e,
                    switch: None,
                    verify_callback: None,
                });
                vec![]
            }
            Op::Remove(p) => pool.remove_blocks_by_parent(&hash_of(*p)).iter().map(|b| (id_of(&b.hash()), id_of(&b.parent_hash()), b.epoch_number())).collect(),
            Op::Clean(t) => pool.clean_expired_blocks(*t).iter().map(|b| (id_of(&b.hash()), id_of(&b.parent_hash()), b.epoch_number())).collect(),
        };
        // ---- the property predicate, from the property text -----------------
        let ret_ids: Vec<u64> = ret.iter().map(|r| r.0).collect();
        let ret_set: BTreeSet<u64> = ret_ids.iter().cloned().collect();
        if ret_set.len() != ret_ids.len() {
            push("a released block is returned more than once".into(), step, json!({"returned": ret}));
        }
        for r in &ret {
            if spec.get(&r.0) != Some(&(r.1, r.2)) {
                push("a returned block was not stored (or comes back altered)".into(), step, json!({"returned": ret}));
            }
        }
        match op {
            Op::Insert(i, p, e) => {
                spec.insert(*i, (*p, *e));
            }
            Op::Remove(p) => {
                let want = if spec.contains_key(p) { BTreeSet::new() } else { descendants(&spec, *p) };
                if want != ret_set {
                    push("remove_blocks_by_parent does not return exactly the stored descendants of the released parent".into(), step,
                         json!({"returned": ret, "expected_ids": want}));
                }
                let mut seen: BTreeSet<u64> = BTreeSet::new();
                for r in &ret {
                    if r.1 != *p && !seen.contains(&r.1) {
                        push("a released block is returned before its parent".into(), step, json!({"returned": ret}));
                    }
                    seen.insert(r.0);
                }
                for i in &ret_set {
                    spec.remove(i);
                }
            }
            Op::Clean(t) => {
                let ids: BTreeSet<u64> = spec.keys().cloned().collect();
                let leaders: BTreeSet<u64> = spec.values().map(|v| v.0).filter(|p| !ids.contains(p)).collect();
                let mut must = BTreeSet::new();
                let mut may = BTreeSet::new();
                for l in &leaders {
                    let eps: Vec<bool> = spec.values().filter(|v| v.0 == *l).map(|v| v.1 + 6 < *t).collect();
                    let d = descendants(&spec, *l);
                    if eps.iter().all(|x| *x) {
                        must.extend(d.iter().cloned());
                        may.extend(d);
                    } else if eps.iter().any(|x| *x) {
                        ambiguous = true;
                        // all of this tree or none of it
                        let inter = d.intersection(&ret_set).count();
                        if inter != 0 && inter != d.len() {
                            push("clean_expired_blocks removed part of an expired orphan tree".into(), step, json!({"returned": ret, "leader": l}));
                        }
                        may.extend(d);
                    }
                }
                if !must.is_subset(&ret_set) || !ret_set.is_subset(&may) {
                    push("clean_expired_blocks does not return exactly the trees whose first-level blocks are expired".into(), step,
                         json!({"returned": ret, "must": must, "may": may}));
                }
                for i in &ret_set {
                    spec.remove(i);
                }
            }
        }
        let ids: BTreeSet<u64> = spec.keys().cloned().collect();
        let want_leaders: Vec<u64> = spec.values().map(|v| v.0).filter(|p| !ids.contains(p)).collect::<BTreeSet<_>>().into_iter().collect();
        let mut leaders: Vec<u64> = pool.clone_leaders().iter().map(id_of).collect();
        leaders.sort();
        let len = pool.len();
        if len != spec.len() {
            push("the pool does not keep exactly the blocks that were stored and not released".into(), step, json!({"len": len, "expected": spec.len()}));
        }
        if leaders != want_leaders {
            push("the leader set is not the set of absent parents".into(), step, json!({"leaders": leaders, "expected": want_leaders}));
        }
        // re-synchronise on disagreement so that later steps stay meaningful
        out.push(Obs { len, leaders, ret });
    }
    (out, ambiguous)
}

fn emit(cx: &mut Ctx, ops: &[Op], to_coq: bool, stream: &str) {
    let ctx = json!({"structure": "orphan", "stream": stream, "ops": ops.iter().map(op_json).collect::<Vec<_>>()});
    let mut v = std::mem::take(&mut cx.viol);
    let (obs, ambiguous) = run_ops(ops, &mut v, &ctx);
    cx.viol = v;
    cx.evaluations += 1;
    if ops.iter().filter(|o| matches!(o, Op::Insert(..))).count() >= 2 {
        cx.distinct += 1;
    }
    let released: usize = obs.iter().map(|o| o.ret.len()).sum();
    cx.count_n("orphan_blocks_released", released as u64);
    if ambiguous {
        cx.count("orphan_seq_mixed_sibling_epochs");
    }
    if to_coq && !ambiguous {
        let mut d = ctx.clone();
        d["observed"] = json!(obs.iter().map(obs_json).collect::<Vec<_>>());
        if cx.samples.len() < 1 {
            cx.samples.push(d.clone());
        }
        cx.case(G_ORPHAN, format!("mkOCase {} {}", coq_list(ops, op_coq), coq_list(&obs, obs_coq)), d);
        cx.count("orphan_coq_cases");
    }
}

/// every tree/forest shape on n blocks: block i (1-based) hangs under an
/// external root (100 or 200) or under an earlier block
fn shapes(n: usize) -> Vec<Vec<u64>> {
    let mut out: Vec<Vec<u64>> = vec![vec![]];
    for i in 1..=n {
        let mut next = Vec::new();
        for s in &out {
            for p in [100u64, 200].into_iter().chain(1..i as u64) {
                let mut t = s.clone();
                t.push(p);
                next.push(t);
            }
        }
        out = next;
    }
    out
}
/// epoch is a function of the parent (as on a real chain), chosen so that the
/// tips 7 / 8 / 17 separate "exactly at the limit" from "one over"
fn epoch_for(parent: u64) -> u64 {
    match parent {
        100 => 0,
        200 => 1,
        p => [0u64, 1, 5, 11][(p % 4) as usize],
    }
}

pub fn run(cx: &mut Ctx) {
    // ---- corpus: the scenarios of the property text -------------------------
    emit(cx, &[Op::Insert(2, 1, 0), Op::Insert(1, 100, 0), Op::Insert(3, 2, 0), Op::Remove(2), Op::Remove(100), Op::Remove(100)], true, "corpus");
    emit(cx, &[Op::Insert(1, 100, 0), Op::Insert(2, 100, 0), Op::Insert(3, 200, 1), Op::Clean(7), Op::Clean(8)], true, "corpus");

    // ---- bounded-exhaustive: every op sequence of length <= L over 3 blocks in every shape
    let len_max = if cx.thorough { 5 } else { 4 };
    let mut sample_every = 0u64;
    for shape in shapes(3) {
        let mut alphabet: Vec<Op> = Vec::new();
        for (i, p) in shape.iter().enumerate() {
            alphabet.push(Op::Insert(i as u64 + 1, *p, epoch_for(*p)));
        }
        for p in [100u64, 200, 1, 2, 3] {
            alphabet.push(Op::Remove(p));
        }
        alphabet.push(Op::Clean(7));
        alphabet.push(Op::Clean(8));
        let k = alphabet.len();
        for len in 1..=len_max {
            let total = (k as u64).pow(len as u32);
            for code in 0..total {
                let mut c = code;
                let mut ops = Vec::with_capacity(len);
                for _ in 0..len {
                    ops.push(alphabet[(c % k as u64) as usize].clone());
                    c /= k as u64;
                }
                // sequences that start with a removal on the empty pool are covered by the shorter ones
                if len > 1 && !matches!(ops[0], Op::Insert(..)) {
                    continue;
                }
                sample_every += 1;
                let to_coq = len == len_max && sample_every % (if cx.thorough { 1500 } else { 90 }) == 0;
                emit(cx, &ops, to_coq, "exhaustive-3");
                cx.count("orphan_seq_exhaustive");
            }
        }
    }
    // ---- every shape on 4 (and sampled shapes on 5) blocks x every insertion order
    //      x a release after every prefix x a final release
    for n in [4usize, 5] {
        let all = shapes(n);
        for (si, shape) in all.iter().enumerate() {
            if n == 5 && !cx.thorough && si % 12 != (cx.rng.0 % 12) as usize {
                continue;
            }
            let mut perm: Vec<usize> = (0..n).collect();
            let mut perms = Vec::new();
            heap_perms(&mut perm, n, &mut perms);
            for (pi, pm) in perms.iter().enumerate() {
                if n == 5 && pi % 5 != 0 {
                    continue;
                }
                for cut in 1..=n {
                    let roots: Vec<u64> = [100u64, 200].into_iter().chain(1..=n as u64).collect();
                    for (ri, r) in roots.iter().enumerate() {
                        let mut ops = Vec::new();
                        for (j, bi) in pm.iter().enumerate() {
                            if j == cut {
                                ops.push(Op::Remove(*r));
                            }
                            ops.push(Op::Insert(*bi as u64 + 1, shape[*bi], epoch_for(shape[*bi])));
                        }
                        if cut == n {
                            ops.push(Op::Remove(*r));
                        }
                        ops.push(Op::Clean(8));
                        ops.push(Op::Remove(100));
                        ops.push(Op::Remove(200));
                        let to_coq = (si * 7 + pi * 3 + cut + ri) % (if cx.thorough { 97 } else { 389 }) == 0;
                        emit(cx, &ops, to_coq, "shapes");
                        cx.count(&format!("orphan_seq_shapes_{n}"));
                    }
                }
            }
        }
    }
    // ---- random long sequences over random forests, incl. a stream with mixed sibling epochs
    let n_rand = if cx.thorough { 4000 } else { 400 };
    for k in 0..n_rand {
        let n = cx.rng.range(4, 12);
        let mixed = k % 8 == 7;
        let mut par = vec![0u64; n as usize + 1];
        let mut ep = vec![0u64; n as usize + 1];
        for i in 1..=n {
            par[i as usize] = if i == 1 || cx.rng.chance(1, 4) { *cx.rng.pick(&[100u64, 200, 300]) } else { cx.rng.range(1, i - 1) };
            ep[i as usize] = if mixed { cx.rng.range(0, 12) } else { epoch_for(par[i as usize]) };
        }
        let nops = cx.rng.range(10, 40);
        let mut ops = Vec::new();
        for _ in 0..nops {
            let r = cx.rng.below(100);
            if r < 60 {
                let i = cx.rng.range(1, n);
                ops.push(Op::Insert(i, par[i as usize], ep[i as usize]));
            } else if r < 88 {
                let p = if cx.rng.chance(1, 2) { *cx.rng.pick(&[100u64, 200, 300]) } else { cx.rng.range(1, n) };
                ops.push(Op::Remove(p));
            } else {
                ops.push(Op::Clean(*cx.rng.pick(&[6u64, 7, 8, 12, 17, 18])));
            }
        }
        emit(cx, &ops, true, if mixed { "random-mixed-epochs" } else { "random" });
        cx.count("orphan_seq_random");
    }
}

fn heap_perms(a: &mut Vec<usize>, k: usize, out: &mut Vec<Vec<usize>>) {
    if k == 1 {
        out.push(a.clone());
        return;
    }
    for i in 0..k {
        heap_perms(a, k - 1, out);
        if k % 2 == 0 {
            a.swap(i, k - 1);
        } else {
            a.swap(0, k - 1);
        }
    }
}

pub fn replay(case: &Value, viol: &mut Vec<Violation>) {
    let ops: Vec<Op> = case["ops"].as_array().unwrap().iter().map(op_parse).collect();
    let (obs, _) = run_ops(&ops, viol, case);
    println!("observations: {}", serde_json::to_string(&obs.iter().map(obs_json).collect::<Vec<_>>()).unwrap());
}
