//! A real CKB node core (Shared + chain services, dummy PoW, always-success
//! scripts) and construction of fully valid blocks on its tip, the way a
//! miner's template is built (adapted from hx-chain/src/node.rs).  The genesis
//! block here carries a satoshi-gift cell and a "NervosDAO" code cell whose
//! binary is the always-success script, so that DaoCalculator treats cells
//! typed with it as deposits / withdrawals.
use ckb_chain::{ChainController, ChainServiceScope, VerifyResult};
use ckb_chain_spec::consensus::{build_genesis_epoch_ext, Consensus, ConsensusBuilder, ProposalWindow};
use ckb_dao::DaoCalculator;
use ckb_dao_utils::genesis_dao_data_with_satoshi_gift;
use ckb_reward_calculator::RewardCalculator;
use ckb_shared::{Shared, SharedBuilder};
use ckb_store::ChainStore;
use ckb_test_chain_utils::{always_success_cell, always_success_cellbase};
use ckb_types::{
    bytes::Bytes,
    core::{
        cell::{resolve_transaction, OverlayCellProvider, TransactionsProvider},
        BlockBuilder, BlockView, Capacity, EpochNumberWithFraction, HeaderView, Ratio, ScriptHashType,
        TransactionBuilder, TransactionView, UncleBlockView,
    },
    packed::{self, CellDep, CellInput, CellOutput, OutPoint, ProposalShortId, Script},
    prelude::*,
    utilities::difficulty_to_compact,
    H160, U256,
};
use std::collections::HashSet;
use std::sync::Arc;

pub const GENESIS_TS: u64 = 1_700_000_000_000;
pub const SATOSHI_HASH: [u8; 20] = [0x5a; 20];

#[derive(Clone, Debug)]
pub struct ChainCfg {
    pub genesis_epoch_length: u64,
    pub window: (u64, u64),
    pub fund_txs: usize,
    pub fund_outputs: usize,
    pub permanent_difficulty: bool,
    pub epoch_duration_target: u64,
    pub initial_primary_epoch_reward: u64,
    pub secondary_epoch_reward: u64,
    pub halving_interval: u64,
    pub satoshi_ratio: (u64, u64),
    pub satoshi_capacity: u64,
    pub genesis_primary_issuance: u64,
    pub genesis_secondary_issuance: u64,
}

pub fn always_success_script() -> Script {
    always_success_cell().2.clone()
}

/// type script put on the genesis "NervosDAO" code cell; its hash is consensus.dao_type_hash()
fn dao_code_type_script() -> Script {
    Script::new_builder()
        .code_hash([0xda; 32].pack())
        .hash_type(ScriptHashType::Data)
        .args(Bytes::from(b"hx-dao".to_vec()).pack())
        .build()
}

/// the type script of a deposit / withdrawing cell
pub fn dao_type_script(consensus: &Consensus) -> Script {
    Script::new_builder()
        .code_hash(consensus.dao_type_hash())
        .hash_type(ScriptHashType::Type)
        .build()
}

pub struct Genesis {
    pub consensus: Consensus,
    pub cellbase: TransactionView,
}

pub fn make_genesis(cfg: &ChainCfg) -> Genesis {
    let (cell, data, script) = always_success_cell();
    let satoshi_lock = script.clone().as_builder().args(Bytes::from(SATOSHI_HASH.to_vec()).pack()).build();
    let cellbase = TransactionBuilder::default()
        .input(CellInput::new(OutPoint::null(), 0))
        // 0: the always-success code cell
        .output(cell.clone())
        .output_data(data.clone())
        // 1: the satoshi gift
        .output(CellOutput::new_builder().capacity(Capacity::shannons(cfg.satoshi_capacity)).lock(satoshi_lock).build())
        .output_data(Bytes::new())
        // 2: OUTPUT_INDEX_DAO: code cell of the "NervosDAO" type script (always-success binary)
        .output(
            CellOutput::new_builder()
                .capacity(Capacity::bytes(data.len() + 200).unwrap())
                .lock(script.clone())
                .type_(Some(dao_code_type_script()).pack())
                .build(),
        )
        .output_data(data.clone())
        .witness(script.clone().into_witness())
        .build();
    let funds: Vec<TransactionView> = (0..cfg.fund_txs as u64)
        .map(|i| {
            let mut b = TransactionBuilder::default().input(CellInput::new(OutPoint::null(), 0));
            for j in 0..cfg.fund_outputs as u64 {
                b = b
                    .output(
                        CellOutput::new_builder()
                            .capacity(Capacity::bytes(50_000 + (i * 16 + j) as usize).unwrap())
                            .lock(script.clone())
                            .build(),
                    )
                    .output_data(Bytes::from((i * 256 + j).to_le_bytes()[..(j as usize % 9)].to_vec()));
            }
            b.build()
        })
        .collect();
    let mut all: Vec<&TransactionView> = vec![&cellbase];
    all.extend(funds.iter());
    let dao = genesis_dao_data_with_satoshi_gift(
        all,
        &H160(SATOSHI_HASH),
        Ratio::new(cfg.satoshi_ratio.0, cfg.satoshi_ratio.1),
        Capacity::shannons(cfg.genesis_primary_issuance),
        Capacity::shannons(cfg.genesis_secondary_issuance),
    )
    .unwrap();
    let compact = difficulty_to_compact(U256::from(1000u64));
    let genesis = BlockBuilder::default()
        .timestamp(GENESIS_TS)
        .compact_target(compact)
        .dao(dao)
        .transaction(cellbase.clone())
        .transactions(funds.clone())
        .build();
    let epoch_ext = build_genesis_epoch_ext(
        Capacity::shannons(cfg.initial_primary_epoch_reward),
        compact,
        cfg.genesis_epoch_length,
        cfg.epoch_duration_target,
        (1, 40),
    );
    let consensus = ConsensusBuilder::new(genesis, epoch_ext)
        .cellbase_maturity(EpochNumberWithFraction::new(0, 0, 1))
        .tx_proposal_window(ProposalWindow(cfg.window.0, cfg.window.1))
        .permanent_difficulty_in_dummy(cfg.permanent_difficulty)
        .epoch_duration_target(cfg.epoch_duration_target)
        .initial_primary_epoch_reward(Capacity::shannons(cfg.initial_primary_epoch_reward))
        .secondary_epoch_reward(Capacity::shannons(cfg.secondary_epoch_reward))
        .primary_epoch_reward_halving_interval(cfg.halving_interval)
        .satoshi_pubkey_hash(H160(SATOSHI_HASH))
        .satoshi_cell_occupied_ratio(Ratio::new(cfg.satoshi_ratio.0, cfg.satoshi_ratio.1))
        .build();
    Genesis { consensus, cellbase }
}

pub struct Node {
    pub shared: Shared,
    scope: Option<ChainServiceScope>,
}

impl Node {
    pub fn temp(consensus: &Consensus) -> Node {
        let (shared, mut pack) = SharedBuilder::with_temp_db()
            .consensus(consensus.clone())
            .build()
            .expect("build shared");
        let scope = ChainServiceScope::new(pack.take_chain_services_builder());
        Node { shared, scope: Some(scope) }
    }
    pub fn chain(&self) -> &ChainController {
        self.scope.as_ref().unwrap().chain_controller()
    }
    pub fn tip(&self) -> HeaderView {
        self.shared.snapshot().tip_header().clone()
    }
    pub fn process(&self, block: &BlockView) -> VerifyResult {
        self.chain().blocking_process_block(Arc::new(block.clone()))
    }
    pub fn stop(mut self) {
        if let Some(scope) = self.scope.take() {
            drop(scope);
        }
    }
}

#[derive(Clone, Default)]
pub struct BlockPlan {
    pub proposals: Vec<ProposalShortId>,
    pub txs: Vec<TransactionView>,
    pub uncles: Vec<UncleBlockView>,
    pub ts_delta: u64,
    pub nonce: u128,
}

pub fn junk_id(n: u64) -> ProposalShortId {
    let mut b = [0u8; 10];
    b[..8].copy_from_slice(&n.to_le_bytes());
    b[9] = 0x5a;
    ProposalShortId::new(b)
}

/// Builds a fully valid child of the node's current tip (None when the
/// node's own calculators fail, e.g. an Overflow).
pub fn build_block(node: &Node, plan: &BlockPlan) -> Result<BlockView, String> {
    let snapshot = node.shared.snapshot();
    let consensus = snapshot.consensus();
    let parent = snapshot.tip_header().clone();
    let number = parent.number() + 1;
    let epoch = consensus
        .next_epoch_ext(&parent, &snapshot.borrow_as_data_loader())
        .ok_or("next epoch")?
        .epoch();
    let (_, reward) = RewardCalculator::new(consensus, snapshot.as_ref())
        .block_reward_to_finalize(&parent)
        .map_err(|e| format!("block_reward_to_finalize: {e}"))?;
    // as the block assembler: no output when there is no finalisation target yet or
    // when the reward cannot create the target's cell
    let lack = CellOutput::new_builder()
        .capacity(reward.total)
        .lock(always_success_script())
        .build()
        .is_lack_of_capacity(Capacity::zero())
        .map_err(|e| format!("capacity: {e}"))?;
    let cellbase = if lack {
        always_success_cellbase(0, reward.total, consensus)
            .as_advanced_builder()
            .set_inputs(vec![CellInput::new_cellbase_input(number)])
            .build()
    } else {
        always_success_cellbase(number, reward.total, consensus)
    };
    let mut all = vec![cellbase.clone()];
    all.extend(plan.txs.iter().cloned());
    let dao = {
        let provider = TransactionsProvider::new(all.iter());
        let overlay = OverlayCellProvider::new(&provider, snapshot.as_ref());
        let mut seen = HashSet::new();
        let mut rtxs = vec![];
        for tx in all.iter() {
            rtxs.push(resolve_transaction(tx.clone(), &mut seen, &overlay, snapshot.as_ref()).map_err(|e| format!("resolve: {e}"))?);
        }
        let loader = snapshot.borrow_as_data_loader();
        DaoCalculator::new(consensus, &loader)
            .dao_field(rtxs.iter(), &parent)
            .map_err(|e| format!("dao_field: {e}"))?
    };
    let mut b = BlockBuilder::default()
        .parent_hash(parent.hash())
        .number(number)
        .timestamp(parent.timestamp() + std::cmp::max(1, plan.ts_delta))
        .epoch(epoch.number_with_fraction(number))
        .compact_target(epoch.compact_target())
        .nonce(plan.nonce)
        .dao(dao)
        .transaction(cellbase)
        .transactions(plan.txs.clone())
        .proposals(plan.proposals.clone())
        .uncles(plan.uncles.clone());
    if consensus.rfc0044_active(parent.epoch().number()) {
        let root = snapshot.chain_root_mmr(parent.number()).get_root().map_err(|e| format!("chain root: {e}"))?;
        let bytes: packed::Bytes = root.calc_mmr_hash().as_bytes().into();
        b = b.extension(Some(bytes));
    }
    Ok(b.build())
}

pub fn always_success_dep(g: &Genesis) -> CellDep {
    CellDep::new_builder().out_point(OutPoint::new(g.cellbase.hash(), 0)).build()
}
pub fn dao_dep(g: &Genesis) -> CellDep {
    CellDep::new_builder().out_point(OutPoint::new(g.cellbase.hash(), 2)).build()
}
