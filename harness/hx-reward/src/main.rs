//! hx-reward: C06.  Real nodes build chains with fee-paying transactions
//! (proposed in blocks and uncles, re-proposed inside the window, committed at
//! every offset of the window, proposals in block 1), NervosDAO deposits and
//! two-phase withdrawals, a satoshi-gift cell, short epochs with remainders
//! and halvings.  For every accepted block the node's answers (cellbase
//! output, DAO field, BlockExt.txs_fees, COLUMN_CELL, block_reward_to_finalize)
//! are (i) checked against the property with arithmetic written here from the
//! property text (u128, no calculator of /repo is called for the expected
//! values) and (ii) written as Coq cases recomputed by Reward/Dao.v.
mod node;

use ckb_dao::DaoCalculator;
use ckb_dao_utils::{extract_dao_data, pack_dao_data};
use ckb_db::IteratorMode;
use ckb_db_schema::COLUMN_CELL;
use ckb_reward_calculator::RewardCalculator;
use ckb_store::ChainStore;
use ckb_types::{
    bytes::Bytes,
    core::{BlockView, Capacity, Ratio, TransactionBuilder, TransactionView, UncleBlockView},
    packed::{self, Byte32, CellInput, CellOutput, OutPoint, ProposalShortId, WitnessArgs},
    prelude::*,
};
use hx_common::*;
use node::*;
use serde_json::{json, Value};
use std::collections::{BTreeMap, BTreeSet, HashMap};
use std::fs;

const KNOWN_F4: &str = "proposal_reward target_number=1";
/// the rule of the property: the proposer of a transaction earns floor(fee * 4 / 10)
const PROPOSER_NUM: u128 = 4;
const PROPOSER_DEN: u128 = 10;
const SHANNONS_PER_BYTE: u128 = 100_000_000;

// ---- arithmetic of the property, written here ------------------------------------
fn occupied_plain(output: &CellOutput, data_len: usize) -> u128 {
    let mut bytes = 8 + 32 + 1 + output.lock().args().raw_data().len() + data_len;
    if let Some(t) = output.type_().to_opt() {
        bytes += 32 + 1 + t.args().raw_data().len();
    }
    bytes as u128 * SHANNONS_PER_BYTE
}
fn is_satoshi(output: &CellOutput, block_number: u64, tx_index: u32) -> bool {
    block_number == 0 && tx_index == 0 && output.lock().args().raw_data()[..] == SATOSHI_HASH[..]
}
fn occupied_modified(cfg: &ChainCfg, output: &CellOutput, data_len: usize, block_number: u64, tx_index: u32) -> u128 {
    if is_satoshi(output, block_number, tx_index) {
        let cap: u64 = output.capacity().into();
        cap as u128 * cfg.satoshi_ratio.0 as u128 / cfg.satoshi_ratio.1 as u128
    } else {
        occupied_plain(output, data_len)
    }
}
fn epoch_primary_reward(cfg: &ChainCfg, epoch_number: u64) -> u128 {
    let halvings = epoch_number / cfg.halving_interval;
    (cfg.initial_primary_epoch_reward as u128) >> halvings
}
/// share of an epoch amount for the block with index `idx` in an epoch of `len` blocks
fn per_block(amount: u128, idx: u64, len: u64) -> u128 {
    amount / len as u128 + if (idx as u128) < amount % len as u128 { 1 } else { 0 }
}
fn proposer_share(fee: u128) -> u128 {
    fee * PROPOSER_NUM / PROPOSER_DEN
}

#[derive(Clone, Debug)]
struct CellRec {
    id: u64,
    cap: u64,
    occ: u128,
    /// Some((deposit height, withdrawing height)) for a NervosDAO withdrawing cell (phase 1 output)
    withdrawing: Option<(u64, u64)>,
}

#[derive(Clone, Debug, Default)]
struct TxRec {
    inputs: Vec<(CellRec, Option<(u64, u64)>)>, // (cell, (deposit AR, withdraw AR) when it is a withdrawing input)
    outputs: Vec<CellRec>,
}

#[derive(Clone, Debug, Default)]
struct BlockRec {
    props: Vec<u64>,
    commits: Vec<(u64, u64)>,
    epoch: (u64, u64, u64),            // header.epoch(): number, index, length
    epoch_ext: (u64, u64, u64, u64, u64), // number, base_block_reward, remainder_reward, start, length
    dao: (u64, u64, u64, u64),         // ar, c, s, u
    txs: Vec<TxRec>,
    cellbase_caps: Vec<u64>,
    reward: Option<[u64; 5]>,          // total, primary, secondary, tx_fee, proposal_reward
    live_occ: u128,
    live_cap: u128,
    interest: u128,
    uncles: usize,
}

#[derive(Clone, Copy, Debug, PartialEq)]
enum Kind {
    Plain,
    Deposit,
    Phase1 { deposit_height: u64 },
    Phase2,
}

struct Pending {
    tx: TransactionView,
    fee: u64,
    prop_heights: BTreeSet<u64>,
    commit_at: Option<u64>,
    kind: Kind,
    done: bool,
}

struct ChainOut {
    cfg: ChainCfg,
    blocks: Vec<BlockRec>, // index = height
    genesis_live: Vec<CellRec>,
    viol: Vec<Value>,
    stats: BTreeMap<String, u64>,
    desc: Value,
}

fn bump(stats: &mut BTreeMap<String, u64>, k: &str, n: u64) {
    *stats.entry(k.to_string()).or_default() += n;
}

fn gen_cfg(rng: &mut Rng, ci: usize) -> ChainCfg {
    let window = match ci % 6 {
        0 => (2u64, 10u64),
        1 => (2, 5),
        2 => (1, 3),
        3 => (2, 4),
        4 => (3, 3),
        _ => *rng.pick(&[(1u64, 1u64), (2, 10), (1, 4)]),
    };
    let tiny = ci % 7 == 5;
    ChainCfg {
        genesis_epoch_length: *rng.pick(&[3u64, 4, 5, 7, 9, 13, 1000]),
        window,
        fund_txs: 10,
        fund_outputs: 4,
        permanent_difficulty: rng.chance(3, 4),
        epoch_duration_target: *rng.pick(&[24u64, 40, 56, 88]),
        initial_primary_epoch_reward: if tiny { *rng.pick(&[30_000_000_000u64, 12_345_678_901]) } else { *rng.pick(&[1_917_808_21917808u64, 1_917_808_21917808, 1_000_000_00000007]) },
        secondary_epoch_reward: if tiny { 9_000_000_011 } else { *rng.pick(&[613_698_63013698u64, 613_698_63013698, 99_999_99999999]) },
        halving_interval: *rng.pick(&[2u64, 3, 8760]),
        satoshi_ratio: *rng.pick(&[(6u64, 10u64), (3, 7)]),
        satoshi_capacity: 7_000_000_000_000 + rng.below(1000),
        genesis_primary_issuance: 100_000_000_000_000,
        genesis_secondary_issuance: 100_000_000_000,
    }
}

fn pick_fee(rng: &mut Rng) -> u64 {
    match rng.below(10) {
        0 => 0,
        1 => *rng.pick(&[1u64, 2, 3, 4, 5, 7, 9]),
        2 => *rng.pick(&[999u64, 1000, 1001, 1004, 1005, 1006]),
        3 => 10 * rng.range(1, 1_000_000) + rng.below(10),
        4 => rng.range(1_000_000_000, 4_000_000_000_000),
        _ => rng.range(1, 100_000_000),
    }
}

fn cfg_json(cfg: &ChainCfg) -> Value {
    json!({"window": [cfg.window.0, cfg.window.1], "genesis_epoch_length": cfg.genesis_epoch_length,
           "permanent_difficulty": cfg.permanent_difficulty, "epoch_duration_target": cfg.epoch_duration_target,
           "initial_primary_epoch_reward": cfg.initial_primary_epoch_reward, "secondary_epoch_reward": cfg.secondary_epoch_reward,
           "halving_interval": cfg.halving_interval, "satoshi_ratio": [cfg.satoshi_ratio.0, cfg.satoshi_ratio.1]})
}

/// the first proposer of `id` committed at height c: least p >= 1 with p+close <= c <= p+far and id in props(p)
fn first_proposer(blocks: &[BlockRec], w: (u64, u64), c: u64, id: u64) -> Option<u64> {
    (1..c).find(|p| p + w.0 <= c && c <= p + w.1 && blocks[*p as usize].props.contains(&id))
}

/// expected reward of target t, finalised by the block at height t + far + 1:
/// (primary, secondary share, committer shares, proposer shares, proposer shares as F4 pays them)
fn expected_reward(cfg: &ChainCfg, blocks: &[BlockRec], t: u64) -> (u128, u128, u128, u128, u128) {
    let w = cfg.window;
    let tb = &blocks[t as usize];
    let primary = per_block(epoch_primary_reward(cfg, tb.epoch.0), tb.epoch.1, tb.epoch.2);
    let secondary = if t == 0 {
        0
    } else {
        let g2 = per_block(cfg.secondary_epoch_reward as u128, tb.epoch.1, tb.epoch.2);
        let pd = blocks[t as usize - 1].dao;
        g2 * pd.3 as u128 / pd.1 as u128
    };
    let committer: u128 = tb.commits.iter().map(|(_, f)| *f as u128 - proposer_share(*f as u128)).sum();
    let mut proposer = 0u128;
    let mut proposer_f4 = 0u128;
    if t >= 1 {
        for c in (t + w.0)..=(t + w.1) {
            if (c as usize) < blocks.len() {
                for (id, fee) in &blocks[c as usize].commits {
                    if first_proposer(blocks, w, c, *id) == Some(t) {
                        proposer += proposer_share(*fee as u128);
                        if c == t + w.1 {
                            proposer_f4 += proposer_share(*fee as u128);
                        }
                    }
                }
            }
        }
    }
    (primary, secondary, committer, proposer, proposer_f4)
}

fn run_chain(seed: u64, ci: usize, thorough: bool) -> ChainOut {
    let mut rng = Rng::new(seed ^ (0xC06_0000 + ci as u64).wrapping_mul(0x9E37_79B9));
    let cfg = gen_cfg(&mut rng, ci);
    let g = make_genesis(&cfg);
    let consensus = g.consensus.clone();
    let node = Node::temp(&consensus);
    let w = cfg.window;
    let n_blocks = (w.1 + 1) + if thorough { rng.range(25, 60) } else { rng.range(16, 30) };
    let mut out = ChainOut { cfg: cfg.clone(), blocks: vec![], genesis_live: vec![], viol: vec![], stats: BTreeMap::new(), desc: Value::Null };
    let mut jblocks: Vec<Value> = vec![];

    // ---- own bookkeeping of cells ------------------------------------------------
    let mut live: HashMap<OutPoint, CellRec> = HashMap::new();
    let mut next_cell: u64 = 0;
    let mut ids: HashMap<ProposalShortId, u64> = HashMap::new();
    let mut next_id: u64 = 1_000_000;
    let mut utxos: Vec<(OutPoint, u64)> = vec![];
    let genesis = consensus.genesis_block().clone();
    {
        // cells consumed inside the genesis block never become live
        let dead: Vec<OutPoint> = genesis.transactions().iter().flat_map(|tx| tx.input_pts_iter().collect::<Vec<_>>()).collect();
        for (ti, tx) in genesis.transactions().iter().enumerate() {
            for (oi, (o, d)) in tx.outputs_with_data_iter().enumerate() {
                let op = OutPoint::new(tx.hash(), oi as u32);
                if dead.contains(&op) { continue; }
                let cap: u64 = o.capacity().into();
                let rec = CellRec { id: next_cell, cap, occ: occupied_modified(&cfg, &o, d.len(), 0, ti as u32), withdrawing: None };
                next_cell += 1;
                out.genesis_live.push(rec.clone());
                live.insert(op.clone(), rec);
                if ti >= 1 || oi == 1 { utxos.push((op, cap)); }
            }
        }
    }
    let gd = extract_dao_data(genesis.header().dao());
    let gepoch = consensus.genesis_epoch_ext().clone();
    let mut grec = BlockRec {
        epoch: (0, 0, cfg.genesis_epoch_length),
        epoch_ext: (gepoch.number(), gepoch.base_block_reward().as_u64(), gepoch.remainder_reward().as_u64(), gepoch.start_number(), gepoch.length()),
        dao: (gd.0, gd.1.as_u64(), gd.2.as_u64(), gd.3.as_u64()),
        ..Default::default()
    };
    grec.live_occ = live.values().map(|c| c.occ).sum();
    grec.live_cap = live.values().map(|c| c.cap as u128).sum();
    if grec.dao.3 as u128 != grec.live_occ {
        out.viol.push(json!({"what": "genesis: U differs from the occupied capacity of the live cells", "detail": {"chain": ci, "U": grec.dao.3, "occupied": grec.live_occ.to_string()}}));
    }
    if !genesis.union_proposal_ids().is_empty() {
        out.viol.push(json!({"what": "harness: genesis proposes", "detail": {}}));
    }
    out.blocks.push(grec);

    // ---- generator state ---------------------------------------------------------
    let mut pending: Vec<Pending> = vec![];
    let mut deposits: Vec<(OutPoint, u64, u64)> = vec![]; // cell, capacity, deposit height
    let mut withdrawing: Vec<(OutPoint, u64, u64, u64)> = vec![]; // cell, capacity, deposit height, phase-1 height
    let mut stash: Vec<(BlockView, bool)> = vec![]; // uncle candidates, used?
    let mut junk: u64 = 1;
    let as_dep = always_success_dep(&g);
    let dep_dao = dao_dep(&g);
    let lock = always_success_script();
    let dao_type = dao_type_script(&consensus);
    let dao_occ_plain = |data_len: usize| -> u64 { ((8 + 33 + 33 + data_len) as u128 * SHANNONS_PER_BYTE) as u64 };

    for h in 1..=n_blocks {
        let tip = node.tip();
        let next_epoch = consensus.next_epoch_ext(&tip, &node.shared.snapshot().borrow_as_data_loader()).expect("epoch").epoch();
        // ---- new transactions whose first proposal is this block ------------------
        let n_new = if h == 1 { rng.range(2, 4) } else { match rng.below(5) { 0 => 0, 1 | 2 => 1, 3 => 2, _ => 3 } };
        let mut uncle_only: Vec<usize> = vec![];
        for _ in 0..n_new {
            // which kind
            let roll = rng.below(10);
            let (tx, fee, kind) = if roll == 0 && !withdrawing.is_empty() {
                // phase 2: claim deposit + interest
                let (op, cap, dh, wh) = withdrawing.remove(rng.below(withdrawing.len() as u64) as usize);
                let ard = out.blocks[dh as usize].dao.0 as u128;
                let arw = out.blocks[wh as usize].dao.0 as u128;
                let occ = dao_occ_plain(8) as u128;
                let maxw = (cap as u128 - occ) * arw / ard + occ;
                let fee = std::cmp::min(pick_fee(&mut rng) as u128, maxw - 70 * SHANNONS_PER_BYTE) as u64;
                let snap = node.shared.snapshot();
                let dhash = snap.get_block_hash(dh).unwrap();
                let whash = snap.get_block_hash(wh).unwrap();
                let wit = WitnessArgs::new_builder().input_type(Some(Bytes::from(0u64.to_le_bytes().to_vec())).pack()).build();
                let tx = TransactionBuilder::default()
                    .cell_dep(as_dep.clone()).cell_dep(dep_dao.clone())
                    .header_dep(dhash).header_dep(whash)
                    .input(CellInput::new(op, 0))
                    .output(CellOutput::new_builder().capacity(Capacity::shannons((maxw - fee as u128) as u64)).lock(lock.clone()).build())
                    .output_data(Bytes::new())
                    .witness(wit.as_bytes().pack())
                    .build();
                (tx, fee, Kind::Phase2)
            } else if roll == 1 && !deposits.is_empty() {
                // phase 1: deposit cell -> withdrawing cell
                let (op, cap, dh) = deposits.remove(rng.below(deposits.len() as u64) as usize);
                let fee = std::cmp::min(pick_fee(&mut rng), 1_000_000_000);
                let dhash = node.shared.snapshot().get_block_hash(dh).unwrap();
                let tx = TransactionBuilder::default()
                    .cell_dep(as_dep.clone()).cell_dep(dep_dao.clone())
                    .header_dep(dhash)
                    .input(CellInput::new(op, 0))
                    .output(CellOutput::new_builder().capacity(Capacity::shannons(cap - fee)).lock(lock.clone()).type_(Some(dao_type.clone()).pack()).build())
                    .output_data(Bytes::from(dh.to_le_bytes().to_vec()))
                    .build();
                (tx, fee, Kind::Phase1 { deposit_height: dh })
            } else {
                if utxos.is_empty() { continue; }
                let n_in = if utxos.len() >= 2 && rng.chance(1, 4) { 2 } else { 1 };
                let mut inputs = vec![];
                for _ in 0..n_in { inputs.push(utxos.remove(rng.below(utxos.len() as u64) as usize)); }
                let total: u64 = inputs.iter().map(|(_, c)| *c).sum();
                let deposit = roll == 2 || roll == 3;
                let n_out = rng.range(1, 3) as usize;
                let min_out = 200 * SHANNONS_PER_BYTE as u64 * n_out as u64;
                if total < min_out + 10 { continue; }
                let fee = std::cmp::min(pick_fee(&mut rng), total - min_out);
                let rest = total - fee;
                let mut b = TransactionBuilder::default().cell_dep(as_dep.clone());
                if deposit { b = b.cell_dep(dep_dao.clone()); }
                for (op, _) in &inputs { b = b.input(CellInput::new(op.clone(), 0)); }
                for i in 0..n_out {
                    let cap = if i == 0 { rest - (rest / n_out as u64) * (n_out as u64 - 1) } else { rest / n_out as u64 };
                    if deposit && i == 0 {
                        b = b.output(CellOutput::new_builder().capacity(Capacity::shannons(cap)).lock(lock.clone()).type_(Some(dao_type.clone()).pack()).build())
                            .output_data(Bytes::from(vec![0u8; 8]));
                    } else {
                        let dl = rng.below(40) as usize;
                        b = b.output(CellOutput::new_builder().capacity(Capacity::shannons(cap)).lock(lock.clone()).build())
                            .output_data(Bytes::from(vec![h as u8; dl]));
                    }
                }
                (b.build(), fee, if deposit { Kind::Deposit } else { Kind::Plain })
            };
            // proposal heights and the commit height
            let mut prop_heights = BTreeSet::new();
            let mut commit_at = None;
            let style = if h == 1 { 0 } else { rng.below(8) };
            if style == 7 {
                // proposed only through an uncle candidate built at this height
                uncle_only.push(pending.len());
                bump(&mut out.stats, "txs_first_proposed_in_uncle_candidate", 1);
            } else {
                prop_heights.insert(h);
                let mut last = h;
                if style >= 4 {
                    // re-proposed by later blocks (inside or beyond this block's window)
                    for _ in 0..rng.range(1, 2) {
                        let p2 = h + rng.range(1, w.1 + 1);
                        prop_heights.insert(p2);
                        last = std::cmp::max(last, p2);
                    }
                    bump(&mut out.stats, "txs_reproposed", 1);
                }
                let base = if rng.chance(1, 2) { h } else { *rng.pick(&prop_heights.iter().cloned().collect::<Vec<_>>()) };
                let _ = last;
                // every offset of the window, the two ends more often
                let off = match rng.below(4) { 0 => w.0, 1 => w.1, _ => rng.range(w.0, w.1) };
                commit_at = Some(base + off);
            }
            match kind { Kind::Deposit => bump(&mut out.stats, "dao_deposit_txs", 1), Kind::Phase1 { .. } => bump(&mut out.stats, "dao_withdraw_phase1_txs", 1), Kind::Phase2 => bump(&mut out.stats, "dao_withdraw_phase2_txs", 1), Kind::Plain => {} }
            let sid = tx.proposal_short_id();
            ids.entry(sid).or_insert_with(|| { next_id += 1; next_id });
            pending.push(Pending { tx, fee, prop_heights, commit_at, kind, done: false });
        }
        // a phase-2 input must be committed after its phase-1 block (true: it was created after) and
        // deposits spent in phase 1 likewise

        // ---- uncle candidate: a sibling of this block, with its own proposals -----
        let make_uncle = rng.chance(1, 3);
        if make_uncle {
            let mut props: Vec<ProposalShortId> = uncle_only.iter().map(|i| pending[*i].tx.proposal_short_id()).collect();
            for p in pending.iter() {
                if !p.done && rng.chance(1, 5) && !props.contains(&p.tx.proposal_short_id()) { props.push(p.tx.proposal_short_id()); }
            }
            if rng.chance(1, 2) { junk += 1; props.push(junk_id(junk)); }
            let plan = BlockPlan { proposals: props, ts_delta: rng.range(1, 3000), nonce: 0xABCD_0000 + h as u128, ..Default::default() };
            if let Ok(u) = build_block(&node, &plan) { stash.push((u, false)); }
        }
        // ---- uncles included by this block ------------------------------------------
        let mut uncles: Vec<UncleBlockView> = vec![];
        if rng.chance(1, 2) {
            for (u, used) in stash.iter_mut() {
                if !*used && uncles.len() < 2 && u.number() < h && u.epoch().number() == next_epoch.number() && u.compact_target() == next_epoch.compact_target() {
                    uncles.push(u.as_uncle());
                    *used = true;
                }
            }
        }
        // transactions proposed by an included uncle get their commit height now
        for u in &uncles {
            for sid in u.data().proposals().into_iter() {
                for p in pending.iter_mut() {
                    if !p.done && p.commit_at.is_none() && p.tx.proposal_short_id() == sid {
                        let off = match rng.below(3) { 0 => w.0, 1 => w.1, _ => rng.range(w.0, w.1) };
                        p.commit_at = Some(h + off);
                    }
                }
            }
        }
        // ---- proposals and commits of this block -------------------------------------
        let mut proposals: Vec<ProposalShortId> = vec![];
        for p in pending.iter() {
            if p.prop_heights.contains(&h) && !proposals.contains(&p.tx.proposal_short_id()) { proposals.push(p.tx.proposal_short_id()); }
        }
        for _ in 0..rng.below(3) { junk += 1; proposals.push(junk_id(junk)); }
        let mut txs: Vec<TransactionView> = vec![];
        let mut committing: Vec<usize> = vec![];
        for (i, p) in pending.iter().enumerate() {
            if !p.done && p.commit_at == Some(h) { txs.push(p.tx.clone()); committing.push(i); }
        }
        let plan = BlockPlan { proposals, txs, uncles: uncles.clone(), ts_delta: rng.range(1, 3000), nonce: h as u128 };
        let block = match build_block(&node, &plan) {
            Ok(b) => b,
            Err(e) => {
                out.viol.push(json!({"what": format!("the node's own calculators failed while building block {h}: {e}"), "detail": {"chain": ci, "seed": seed, "cfg": cfg_json(&cfg), "blocks": jblocks}}));
                break;
            }
        };
        // ---- the verifiers force the match: tampered siblings must be rejected ------------
        if rng.chance(1, 5) {
            let kind = rng.below(6);
            let cb = block.transactions()[0].clone();
            let outs: Vec<CellOutput> = cb.outputs().into_iter().collect();
            let bad: Option<(BlockView, &str)> = match kind {
                0 | 1 if !outs.is_empty() => {
                    let cap: u64 = outs[0].capacity().into();
                    let ncap = if kind == 0 { cap + 1 } else { cap - 1 };
                    let o = outs[0].clone().as_builder().capacity(Capacity::shannons(ncap)).build();
                    let ncb = cb.as_advanced_builder().set_outputs(vec![o]).build();
                    let mut txs = block.transactions();
                    txs[0] = ncb;
                    Some((block.as_advanced_builder().set_transactions(txs).build(), if kind == 0 { "cellbase one shannon above the reward" } else { "cellbase one shannon below the reward" }))
                }
                0 | 1 => {
                    // no finalisation target yet / reward too small: a cellbase that creates capacity anyway
                    let o = CellOutput::new_builder().capacity(Capacity::shannons(41 * SHANNONS_PER_BYTE as u64)).lock(lock.clone()).build();
                    let ncb = cb.as_advanced_builder().output(o).output_data(Bytes::new()).build();
                    let mut txs = block.transactions();
                    txs[0] = ncb;
                    Some((block.as_advanced_builder().set_transactions(txs).build(), "cellbase with an output although nothing is to be paid"))
                }
                _ => {
                    let (ar, c, s_, u) = extract_dao_data(block.header().dao());
                    let (c, s_, u) = (c.as_u64(), s_.as_u64(), u.as_u64());
                    let (nar, nc, ns, nu, what) = match kind {
                        2 => (ar + 1, c, s_, u, "DAO field with AR + 1"),
                        3 => (ar, c + 1, s_, u, "DAO field with C + 1"),
                        4 => (ar, c, s_ + 1, u, "DAO field with S + 1"),
                        _ => (ar, c, s_, u.wrapping_sub(1), "DAO field with U - 1"),
                    };
                    let d = pack_dao_data(nar, Capacity::shannons(nc), Capacity::shannons(ns), Capacity::shannons(nu));
                    Some((block.as_advanced_builder().dao(d).build(), what))
                }
            };
            if let Some((bb, what)) = bad {
                bump(&mut out.stats, "tampered_blocks_offered", 1);
                if node.process(&bb).is_ok() {
                    out.viol.push(json!({"what": format!("the node accepted a block with a {what}"), "detail": {"chain": ci, "seed": seed, "height": h, "cfg": cfg_json(&cfg)}}));
                    break;
                }
            }
        }
        if let Err(e) = node.process(&block) {
            out.viol.push(json!({"what": format!("harness: block {h} built from the node's own snapshot was rejected: {e}"), "detail": {"chain": ci, "seed": seed, "cfg": cfg_json(&cfg), "uncles": uncles.len(), "commits": committing.len(), "blocks": jblocks}}));
            break;
        }
        for i in &committing { pending[*i].done = true; }

        // ---- observe -----------------------------------------------------------------
        let snap = node.shared.snapshot();
        let hash = block.hash();
        let mut rec = BlockRec::default();
        rec.uncles = uncles.len();
        for sid in block.union_proposal_ids_iter() {
            let id = *ids.entry(sid).or_insert_with(|| { next_id += 1; next_id });
            if !rec.props.contains(&id) { rec.props.push(id); }
        }
        let ext = snap.get_block_ext(&hash).expect("block ext");
        let fees: Vec<u64> = ext.txs_fees.iter().map(|c| c.as_u64()).collect();
        let ntx = block.transactions().len();
        if fees.len() + 1 != ntx {
            out.viol.push(json!({"what": "BlockExt.txs_fees does not have one entry per non-cellbase transaction", "detail": {"chain": ci, "height": h, "fees": fees.len(), "txs": ntx}}));
        }
        for (i, tx) in block.transactions().iter().enumerate().skip(1) {
            let id = *ids.entry(tx.proposal_short_id()).or_insert_with(|| { next_id += 1; next_id });
            rec.commits.push((id, fees.get(i - 1).cloned().unwrap_or(0)));
        }
        let e = block.epoch();
        rec.epoch = (e.number(), e.index(), e.length());
        let ee = snap.get_block_epoch(&hash).expect("epoch ext");
        rec.epoch_ext = (ee.number(), ee.base_block_reward().as_u64(), ee.remainder_reward().as_u64(), ee.start_number(), ee.length());
        let d = extract_dao_data(block.header().dao());
        rec.dao = (d.0, d.1.as_u64(), d.2.as_u64(), d.3.as_u64());
        rec.cellbase_caps = block.transactions()[0].outputs().into_iter().map(|o| { let c: u64 = o.capacity().into(); c }).collect();
        rec.reward = RewardCalculator::new(&consensus, snap.as_ref())
            .block_reward_to_finalize(&tip)
            .ok()
            .map(|(_, r)| [r.total.as_u64(), r.primary.as_u64(), r.secondary.as_u64(), r.tx_fee.as_u64(), r.proposal_reward.as_u64()]);
        // apply the block to the own cell set, transaction by transaction
        let mut interest_block: u128 = 0;
        let mut fee_sum: u128 = 0;
        for (ti, tx) in block.transactions().iter().enumerate() {
            let mut tr = TxRec::default();
            let mut in_cap: u128 = 0;
            let mut interest: u128 = 0;
            if ti > 0 {
                for op in tx.input_pts_iter() {
                    match live.remove(&op) {
                        Some(c) => {
                            in_cap += c.cap as u128;
                            let mut ars = None;
                            if let Some((dh, wh)) = c.withdrawing {
                                // counted_capacity * AR_withdraw / AR_deposit
                                let ard = out.blocks[dh as usize].dao.0 as u128;
                                let arw = out.blocks[wh as usize].dao.0 as u128;
                                let counted = c.cap as u128 - c.occ;
                                interest += counted * arw / ard - counted;
                                ars = Some((ard as u64, arw as u64));
                            }
                            tr.inputs.push((c, ars));
                        }
                        None => out.viol.push(json!({"what": "an accepted block spends a cell that is not live", "detail": {"chain": ci, "height": h}})),
                    }
                }
            }
            let pk = pending.iter().find(|p| p.tx.hash() == tx.hash()).map(|p| (p.kind, p.fee));
            let mut out_cap: u128 = 0;
            for (oi, (o, dta)) in tx.outputs_with_data_iter().enumerate() {
                let cap: u64 = o.capacity().into();
                out_cap += cap as u128;
                let op = OutPoint::new(tx.hash(), oi as u32);
                let wd = match pk { Some((Kind::Phase1 { deposit_height }, _)) if oi == 0 => Some((deposit_height, h)), _ => None };
                let c = CellRec { id: next_cell, cap, occ: occupied_plain(&o, dta.len()), withdrawing: wd };
                next_cell += 1;
                live.insert(op.clone(), c.clone());
                tr.outputs.push(c);
                match pk {
                    Some((Kind::Deposit, _)) if oi == 0 => deposits.push((op, cap, h)),
                    Some((Kind::Phase1 { deposit_height }, _)) if oi == 0 => withdrawing.push((op, cap, deposit_height, h)),
                    _ => { if ti > 0 || cap > 0 { utxos.push((op, cap)); } }
                }
            }
            if ti > 0 {
                // fee = inputs + interest - outputs
                let fee_own = (in_cap + interest).checked_sub(out_cap);
                let fee_obs = fees.get(ti - 1).cloned();
                let intended = pk.map(|x| x.1);
                if fee_own != fee_obs.map(|x| x as u128) || intended != fee_obs {
                    out.viol.push(json!({"what": "BlockExt.txs_fees differs from inputs + NervosDAO interest - outputs", "detail": {"chain": ci, "seed": seed, "height": h, "tx": ti, "observed": fee_obs, "own": fee_own.map(|x| x.to_string()), "intended": intended, "cfg": cfg_json(&cfg)}}));
                }
                fee_sum += fee_obs.unwrap_or(0) as u128;
                interest_block += interest;
                if interest > 0 { bump(&mut out.stats, "withdrawals_with_interest", 1); }
            }
            rec.txs.push(tr);
        }
        rec.interest = interest_block;
        // COLUMN_CELL
        let mut col_occ: u128 = 0;
        let mut col_cap: u128 = 0;
        let mut col_n = 0usize;
        for (_k, v) in snap.get_iter(COLUMN_CELL, IteratorMode::Start) {
            let entry = packed::CellEntryReader::from_slice_should_be_ok(v.as_ref());
            let o = entry.output().to_entity();
            let bn: u64 = entry.block_number().to_entity().into();
            let ix: u32 = entry.index().to_entity().into();
            let ds: u64 = entry.data_size().to_entity().into();
            let cap: u64 = o.capacity().into();
            col_occ += occupied_modified(&cfg, &o, ds as usize, bn, ix);
            col_cap += cap as u128;
            col_n += 1;
        }
        rec.live_occ = col_occ;
        rec.live_cap = col_cap;

        // ---- the property, on the implementation's answers ------------------------------
        let prev = out.blocks[h as usize - 1].clone();
        let det = |what: &str, extra: Value| json!({"what": what, "detail": {"chain": ci, "seed": seed, "height": h, "cfg": cfg_json(&cfg), "info": extra}});
        // live set of the node = own live set
        let own_occ: u128 = live.values().map(|c| c.occ).sum();
        let own_cap: u128 = live.values().map(|c| c.cap as u128).sum();
        if col_n != live.len() || col_occ != own_occ || col_cap != own_cap {
            out.viol.push(det("COLUMN_CELL differs from the live-cell set obtained by applying the accepted blocks", json!({"cells": [col_n, live.len()], "occupied": [col_occ.to_string(), own_occ.to_string()]})));
        }
        // DAO accumulation from the parent's field
        let (par, pc, ps, pu) = (prev.dao.0 as u128, prev.dao.1 as u128, prev.dao.2 as u128, prev.dao.3 as u128);
        let primary_h = per_block(epoch_primary_reward(&cfg, rec.epoch.0), rec.epoch.1, rec.epoch.2);
        let g2_h = per_block(cfg.secondary_epoch_reward as u128, rec.epoch.1, rec.epoch.2);
        let added: u128 = rec.txs.iter().flat_map(|t| t.outputs.iter()).map(|c| c.occ).sum();
        let freed: u128 = rec.txs.iter().flat_map(|t| t.inputs.iter()).map(|c| c.0.occ).sum();
        let exp_c = pc + primary_h + g2_h;
        let exp_u = pu + added - freed;
        let exp_s = ps + (g2_h - g2_h * pu / pc) - interest_block;
        let exp_ar = par + par * g2_h / pc;
        if rec.dao.1 as u128 != exp_c {
            out.viol.push(det("DAO C is not the parent's C plus this block's primary and secondary issuance", json!({"observed": rec.dao.1, "expected": exp_c.to_string(), "primary": primary_h.to_string(), "secondary_issuance": g2_h.to_string()})));
        }
        if rec.dao.3 as u128 != exp_u {
            out.viol.push(det("DAO U is not the parent's U plus occupied(outputs) minus occupied(inputs)", json!({"observed": rec.dao.3, "expected": exp_u.to_string(), "added": added.to_string(), "freed": freed.to_string()})));
        }
        if rec.dao.3 as u128 != col_occ {
            out.viol.push(det("DAO U differs from the occupied capacity of the live-cell set (COLUMN_CELL)", json!({"U": rec.dao.3, "occupied": col_occ.to_string()})));
        }
        if rec.dao.2 as u128 != exp_s {
            out.viol.push(det("DAO S is not the parent's S plus the NervosDAO share of the secondary issuance minus the interest withdrawn", json!({"observed": rec.dao.2, "expected": exp_s.to_string(), "interest": interest_block.to_string()})));
        }
        if rec.dao.0 as u128 != exp_ar || rec.dao.0 < prev.dao.0 {
            out.viol.push(det("DAO AR is not the parent's AR * (1 + secondary issuance / C)", json!({"observed": rec.dao.0, "expected": exp_ar.to_string()})));
        }
        // no capacity appears other than the cellbase reward and NervosDAO interest
        let cb: u128 = rec.cellbase_caps.iter().map(|c| *c as u128).sum();
        if col_cap + fee_sum != prev.live_cap + cb + interest_block {
            out.viol.push(det("capacity of the live cells changed by something else than cellbase reward + NervosDAO interest - fees", json!({"before": prev.live_cap.to_string(), "after": col_cap.to_string(), "cellbase": cb.to_string(), "interest": interest_block.to_string(), "fees": fee_sum.to_string()})));
        }
        out.blocks.push(rec.clone());
        // the cellbase pays the reward of the block it finalises
        let min_cell = 41 * SHANNONS_PER_BYTE;
        let t = h.saturating_sub(w.1 + 1);
        let (e_primary, e_secondary, e_committer, e_proposer, e_proposer_f4) = expected_reward(&cfg, &out.blocks, t);
        let e_total = e_primary + e_secondary + e_committer + e_proposer;
        let mut f4_hit = false;
        if let Some(r) = rec.reward {
            let obs = [r[1] as u128, r[2] as u128, r[3] as u128, r[4] as u128];
            let exp = [e_primary, e_secondary, e_committer, e_proposer];
            let names = ["primary", "secondary", "committer shares (tx_fee)", "proposer shares (proposal_reward)"];
            for k in 0..4 {
                if obs[k] != exp[k] {
                    if k == 3 && t == 1 && obs[3] == e_proposer_f4 && e_proposer_f4 < e_proposer {
                        f4_hit = true;
                        continue;
                    }
                    out.viol.push(det(&format!("block_reward_to_finalize: {} of target {} is {} but the rule gives {}", names[k], t, obs[k], exp[k]),
                        json!({"target": t, "observed": r.to_vec(), "expected": exp.iter().map(|x| x.to_string()).collect::<Vec<_>>(), "target_commits": out.blocks[t as usize].commits, "target_props": out.blocks[t as usize].props})));
                }
            }
            if r[0] as u128 != obs.iter().sum::<u128>() {
                out.viol.push(det("block_reward_to_finalize: total is not the sum of its parts", json!({"observed": r.to_vec()})));
            }
        } else {
            out.viol.push(det("block_reward_to_finalize failed", json!({})));
        }
        let expect_cb = if h <= w.1 + 1 { 0 } else if f4_hit { e_total - e_proposer + e_proposer_f4 } else { e_total };
        let expect_cb = if expect_cb < min_cell { 0 } else { expect_cb };
        if f4_hit {
            bump(&mut out.stats, "f4_target1_proposer_share_withheld", 1);
            if cb == expect_cb {
                out.viol.push(json!({"what": format!("the cellbase of block {} pays target block 1 {} shannons less than its reward: block 1 is treated as its own earlier proposer", h, e_proposer - e_proposer_f4),
                    "signature": KNOWN_F4,
                    "detail": {"chain": ci, "seed": seed, "height": h, "cfg": cfg_json(&cfg), "expected_proposer_part": e_proposer.to_string(), "paid_proposer_part": e_proposer_f4.to_string(),
                               "block1_props": out.blocks[1].props, "commits": (1 + w.0..=1 + w.1).map(|c| json!({"height": c, "commits": out.blocks.get(c as usize).map(|b| b.commits.clone())})).collect::<Vec<_>>()}}));
            }
        }
        if cb != expect_cb || (h <= w.1 + 1 && !rec.cellbase_caps.is_empty()) || (expect_cb == 0 && !rec.cellbase_caps.is_empty()) {
            out.viol.push(det(&format!("the cellbase creates {} but the reward of the block it finalises (target {}) is {}", cb, t, expect_cb),
                json!({"target": t, "primary": e_primary.to_string(), "secondary": e_secondary.to_string(), "committer": e_committer.to_string(), "proposer": e_proposer.to_string()})));
        }
        if expect_cb == 0 && h > w.1 + 1 { bump(&mut out.stats, "rewards_too_small_for_a_cell", 1); }
        // statistics
        bump(&mut out.stats, "blocks", 1);
        bump(&mut out.stats, "committed_txs", rec.commits.len() as u64);
        if rec.uncles > 0 { bump(&mut out.stats, "blocks_with_uncles", 1); }
        if rec.epoch.1 == 0 { bump(&mut out.stats, "epoch_starts", 1); }
        if h > w.1 + 1 && e_proposer > 0 { bump(&mut out.stats, "targets_with_proposer_reward", 1); }
        if h > w.1 + 1 { bump(&mut out.stats, "finalised_targets", 1); }
        jblocks.push(json!({"h": h, "props": rec.props, "commits": rec.commits, "uncles": rec.uncles, "epoch": [rec.epoch.0, rec.epoch.1, rec.epoch.2]}));
        let _ = &next_epoch;
    }
    // hypothesis of the Coq theorems: a transaction id is committed at most once on the chain
    {
        let mut seen = BTreeSet::new();
        for b in &out.blocks {
            for (id, _) in &b.commits {
                if !seen.insert(*id) {
                    out.viol.push(json!({"what": "a transaction id was committed twice on one chain", "detail": {"chain": ci, "seed": seed, "id": id}}));
                }
            }
        }
    }
    // coverage of the first-proposer rule: commits whose first proposer is not the latest proposer
    for c in 1..out.blocks.len() as u64 {
        for (id, _) in &out.blocks[c as usize].commits {
            let all: Vec<u64> = (1..c).filter(|p| p + w.0 <= c && c <= p + w.1 && out.blocks[*p as usize].props.contains(id)).collect();
            if all.len() > 1 { bump(&mut out.stats, "commits_with_competing_proposers", 1); }
            let any_expired = (1..c).any(|p| c > p + w.1 && out.blocks[p as usize].props.contains(id));
            if any_expired { bump(&mut out.stats, "commits_after_an_expired_proposal", 1); }
            if let Some(p) = all.first() { bump(&mut out.stats, &format!("commit_offset_from_far_end_{}", std::cmp::min(p + w.1 - c, 9)), 1); }
        }
    }
    node.stop();
    out.desc = json!({"chain": ci, "seed": seed, "cfg": cfg_json(&cfg), "blocks": jblocks});
    out
}

// ---- Coq rendering -----------------------------------------------------------------
fn coq_cell(c: &CellRec, ars: Option<(u64, u64)>) -> String {
    let wd = match ars { Some((d, w)) => format!("(Some (mkWd {} {}))", coq_n(d as u128), coq_n(w as u128)), None => "None".into() };
    format!("mkCell {} {} {} {}", coq_n(c.id as u128), coq_n(c.cap as u128), coq_n(c.occ), wd)
}
fn coq_block(b: &BlockRec) -> String {
    let txs = coq_list(&b.txs, |t| format!("mkTx {} {}", coq_list(&t.inputs, |(c, a)| coq_cell(c, *a)), coq_list(&t.outputs, |c| coq_cell(c, None))));
    format!("mkFB (mkEpochExt {} {} {} 0%N {} {} 0%N) (mkDao {} {} {} {}) (mkRB {} {}) {}",
        coq_n(b.epoch_ext.0 as u128), coq_n(b.epoch_ext.1 as u128), coq_n(b.epoch_ext.2 as u128), coq_n(b.epoch_ext.3 as u128), coq_n(b.epoch_ext.4 as u128),
        coq_n(b.dao.0 as u128), coq_n(b.dao.1 as u128), coq_n(b.dao.2 as u128), coq_n(b.dao.3 as u128),
        coq_list(&b.props, |x| coq_n(*x as u128)), coq_list(&b.commits, |(i, f)| format!("({}, {})", coq_n(*i as u128), coq_n(*f as u128))), txs)
}
fn coq_case(c: &ChainOut, ratio: (u64, u64)) -> String {
    let obs = coq_list(&c.blocks[1..], |b| {
        let r = match b.reward { Some(r) => format!("(Some (mkReward {} {} {} {} {}))", coq_n(r[0] as u128), coq_n(r[1] as u128), coq_n(r[2] as u128), coq_n(r[3] as u128), coq_n(r[4] as u128)), None => "None".into() };
        format!("mkObs {} {} {}", r, coq_list(&b.cellbase_caps, |x| coq_n(*x as u128)), coq_n(b.live_occ))
    });
    format!("mkRCase (mkCons (mkRW {} {}) (mkRatio {} {}) {}) {} {}\n   {}\n   {}",
        coq_nat(c.cfg.window.0), coq_nat(c.cfg.window.1), coq_n(ratio.0 as u128), coq_n(ratio.1 as u128), coq_n(c.cfg.secondary_epoch_reward as u128),
        coq_n(41 * SHANNONS_PER_BYTE), coq_list(&c.genesis_live, |x| coq_cell(x, None)),
        coq_list(&c.blocks, coq_block).replace("; mkFB", ";\n    mkFB"), obs)
}

fn main() {
    let seed = seed();
    let thorough = tier_is_thorough();
    let out = out_dir("C06");
    for e in fs::read_dir(&out).unwrap().flatten() {
        let n = e.file_name().to_string_lossy().to_string();
        if n.starts_with("cases_") || n == "summary.json" { let _ = fs::remove_file(e.path()); }
    }
    let scratch = scratch_dir("C06");
    // replay: re-run the chain named by the first violation of the replay file
    if let Ok(rp) = std::env::var("HX_REPLAY") {
        let v: Value = serde_json::from_str(&fs::read_to_string(&rp).expect("replay file")).expect("json");
        let first = v["violations"].get(0).cloned().unwrap_or(v["cases"].get(0).map(|c| c["case"].clone()).unwrap_or(Value::Null));
        let d = if first.get("detail").is_some() { first["detail"].clone() } else { first.clone() };
        let ci = d["chain"].as_u64().unwrap_or(0) as usize;
        let sd = d["seed"].as_u64().unwrap_or(seed);
        let r = run_chain(sd, ci, thorough);
        let _ = fs::remove_dir_all(&scratch);
        let bad: Vec<&Value> = r.viol.iter().filter(|v| v.get("signature").is_none()).collect();
        println!("replay of chain {ci} (seed {sd}): {} blocks, {} violations ({} of a known class)", r.blocks.len() - 1, r.viol.len(), r.viol.len() - bad.len());
        for b in r.viol.iter().take(5) { println!("{}", serde_json::to_string_pretty(b).unwrap()); }
        std::process::exit(if bad.is_empty() { 0 } else { 1 });
    }

    let n_chains = if thorough { 128 } else { 24 };
    let shards = if thorough { 16usize } else { 8usize };
    let header = "From CKB Require Import Reward.Dao.";
    let mut files: Vec<CaseFile> = (0..shards).map(|i| {
        let mut cf = CaseFile::new(&out, &format!("cases_{:02}", i), header);
        cf.group("chain", "rcase", "check_rcase");
        cf.group("ratio", "N * N * N * option N", "check_ratio");
        cf.group("pack", "list N * (N * N * N * N) * list N", "check_pack");
        cf.group("withdraw", "N * N * N * N * option N", "check_withdraw");
        cf
    }).collect();
    let mut descs: Vec<BTreeMap<String, Vec<Value>>> = (0..shards).map(|_| BTreeMap::new()).collect();
    let mut viol: Vec<Value> = vec![];
    let mut stats: BTreeMap<String, u64> = BTreeMap::new();
    let mut samples: Vec<Value> = vec![];
    let mut evaluations = 0u64;
    let mut distinct: BTreeSet<String> = BTreeSet::new();

    // ---- stream 1: chains ----------------------------------------------------------
    for ci in 0..n_chains {
        let r = std::panic::catch_unwind(|| run_chain(seed, ci, thorough));
        match r {
            Err(p) => {
                let msg = p.downcast_ref::<String>().cloned().or_else(|| p.downcast_ref::<&str>().map(|s| s.to_string())).unwrap_or_default();
                viol.push(json!({"what": format!("panic while building / processing chain {ci}: {msg}"), "detail": {"chain": ci, "seed": seed}}));
            }
            Ok(c) => {
                for (k, v) in &c.stats { bump(&mut stats, k, *v); }
                bump(&mut stats, &format!("window_{}_{}", c.cfg.window.0, c.cfg.window.1), 1);
                viol.extend(c.viol.iter().cloned());
                evaluations += (c.blocks.len() - 1) as u64;
                distinct.insert(format!("{}", c.desc));
                let ratio = { let r = make_genesis(&c.cfg).consensus.proposer_reward_ratio(); (r.numer(), r.denom()) };
                let sh = ci % shards;
                files[sh].push(0, coq_case(&c, ratio));
                if samples.len() < 2 { samples.push(json!({"chain": ci, "cfg": cfg_json(&c.cfg), "first_blocks": c.desc["blocks"].as_array().map(|a| a.iter().take(6).cloned().collect::<Vec<_>>())})); }
                descs[sh].entry("chain".into()).or_default().push(c.desc.clone());
            }
        }
    }

    // ---- stream 2: the arithmetic primitives on boundary values --------------------
    let mut rng = Rng::new(seed ^ 0xC06_A);
    let n_arith = if thorough { 20000 } else { 3000 };
    for i in 0..n_arith {
        let sh = i % shards;
        // safe_mul_ratio, fee split
        let (n, d) = *rng.pick(&[(4u64, 10u64), (4, 10), (6, 10), (1, 1), (3, 7), (0, 5), (10, 4)]);
        let fee = match rng.below(6) {
            0 => rng.below(100),
            1 => (u64::MAX / std::cmp::max(n, 1)).wrapping_add(rng.below(5)).wrapping_sub(2),
            2 => u64::MAX - rng.below(3),
            3 => 1u64 << rng.range(0, 63),
            _ => rng.next() >> rng.below(64),
        };
        let got = Capacity::shannons(fee).safe_mul_ratio(Ratio::new(n, d)).ok().map(|c| c.as_u64());
        let own = (fee as u128 * n as u128).checked_div(d as u128).filter(|_| fee as u128 * (n as u128) < (1u128 << 64));
        if got.map(|x| x as u128) != own {
            viol.push(json!({"what": "safe_mul_ratio differs from floor(x*n/d) (None on u64 overflow of x*n)", "detail": {"x": fee, "n": n, "d": d, "observed": got}}));
        }
        if let Some(p) = got { if n <= d && p as u128 + (fee as u128 - p as u128) != fee as u128 { viol.push(json!({"what": "fee split does not sum", "detail": {"fee": fee}})); } }
        files[sh].push(1, format!("({}, {}, {}, {})", coq_n(n as u128), coq_n(d as u128), coq_n(fee as u128), coq_option(&got, |x| coq_n(*x as u128))));
        descs[sh].entry("ratio".into()).or_default().push(json!({"n": n, "d": d, "x": fee, "observed": got}));
        // pack / extract
        let mut bs = [0u8; 32];
        for b in bs.iter_mut() { *b = match rng.below(4) { 0 => 0, 1 => 0xff, _ => rng.below(256) as u8 }; }
        let b32 = Byte32::from_slice(&bs).unwrap();
        let (ar, c, s, u) = extract_dao_data(b32.clone());
        let back = pack_dao_data(ar, c, s, u);
        if back != b32 { viol.push(json!({"what": "pack_dao_data(extract_dao_data(x)) != x", "detail": {"bytes": hex(&bs)}})); }
        let le = |o: usize| u64::from_le_bytes(bs[o..o + 8].try_into().unwrap());
        if (ar, c.as_u64(), s.as_u64(), u.as_u64()) != (le(8), le(0), le(16), le(24)) {
            viol.push(json!({"what": "extract_dao_data does not read C, AR, S, U little-endian at offsets 0, 8, 16, 24", "detail": {"bytes": hex(&bs)}}));
        }
        files[sh].push(2, format!("({}, ({}, {}, {}, {}), {})", coq_bytes(&bs), coq_n(ar as u128), coq_n(c.as_u64() as u128), coq_n(s.as_u64() as u128), coq_n(u.as_u64() as u128), coq_bytes(back.as_slice())));
        descs[sh].entry("pack".into()).or_default().push(json!({"bytes": hex(&bs)}));
        evaluations += 2;
    }
    bump(&mut stats, "ratio_cases", n_arith as u64);
    bump(&mut stats, "dao_pack_cases", n_arith as u64);

    // ---- stream 3: calculate_maximum_withdraw on forged headers ----------------------
    // (a zero deposit rate makes the real function panic with a division by zero: keep the output quiet)
    let hook = std::panic::take_hook();
    std::panic::set_hook(Box::new(|_| {}));
    withdraw_stream(&mut rng, if thorough { 4000 } else { 600 }, &mut files, &mut descs, &mut viol, &mut stats, &mut evaluations);
    std::panic::set_hook(hook);

    for (i, cf) in files.iter().enumerate() {
        cf.write().unwrap();
        fs::write(out.join(format!("cases_{:02}.json", i)), serde_json::to_string(&descs[i]).unwrap()).unwrap();
    }
    let _ = fs::remove_dir_all(&scratch);
    let summary = json!({
        "property": "C06", "seed": seed,
        "evaluations": evaluations, "distinct_nontrivial": distinct.len(),
        "rule": "stream chain: real nodes (dummy PoW, always-success lock; the NervosDAO type script is an always-success binary at the genesis DAO position, so DaoCalculator's deposit/withdraw accounting is exercised) build chains of window+17..window+31 blocks (quick) with windows (2,10),(2,5),(1,3),(2,4),(3,3),(1,1),(1,4), genesis epochs of 3..13 or 1000 blocks followed by epochs of 3/5/7/11 blocks (permanent difficulty) or doubling lengths, halving every 2/3/8760 epochs, three primary/secondary issuance settings incl. rewards too small to create a cell, a satoshi-gift cell at ratio 6/10 or 3/7; transactions with fees 0..4e12 are proposed in block h (2-4 of them in block 1), in uncle candidates, re-proposed up to w_far+1 blocks later, and committed at every offset of a covering window; every accepted block is observed (evaluations = blocks + arithmetic cases). distinct = distinct chains. Streams ratio/pack/withdraw: safe_mul_ratio, pack/extract_dao_data and calculate_maximum_withdraw on boundary values",
        "distribution": stats, "samples": samples,
        "impl_violations": viol,
    });
    fs::write(out.join("summary.json"), serde_json::to_string_pretty(&summary).unwrap()).unwrap();
    println!("hx-reward C06: {} evaluations, {} implementation-side violations ({} known class)", evaluations, viol.len(), viol.iter().filter(|v| v.get("signature").is_some()).count());
}

// ---- calculate_maximum_withdraw through a mock data loader ----------------------------
use ckb_traits::{CellDataProvider, HeaderProvider};
use ckb_types::core::{HeaderBuilder, HeaderView};
struct MockLoader { headers: HashMap<Byte32, HeaderView> }
impl CellDataProvider for MockLoader {
    fn get_cell_data(&self, _o: &OutPoint) -> Option<Bytes> { None }
    fn get_cell_data_hash(&self, _o: &OutPoint) -> Option<Byte32> { None }
}
impl HeaderProvider for MockLoader {
    fn get_header(&self, h: &Byte32) -> Option<HeaderView> { self.headers.get(h).cloned() }
}

fn withdraw_stream(rng: &mut Rng, n: usize, files: &mut [CaseFile], descs: &mut [BTreeMap<String, Vec<Value>>], viol: &mut Vec<Value>, stats: &mut BTreeMap<String, u64>, evaluations: &mut u64) {
    let cfg = ChainCfg { genesis_epoch_length: 1000, window: (2, 10), fund_txs: 1, fund_outputs: 1, permanent_difficulty: false, epoch_duration_target: 14400,
        initial_primary_epoch_reward: 1_917_808_21917808, secondary_epoch_reward: 613_698_63013698, halving_interval: 8760, satoshi_ratio: (6, 10), satoshi_capacity: 7_000_000_000_000,
        genesis_primary_issuance: 100_000_000_000_000, genesis_secondary_issuance: 100_000_000_000 };
    let consensus = make_genesis(&cfg).consensus;
    let shards = files.len();
    for i in 0..n {
        let dar: u64 = match rng.below(5) { 0 => 10_000_000_000_000_000, 1 => rng.range(1, 1000), 2 => 0, _ => rng.range(10_000_000_000_000_000, 10_100_000_000_000_000) };
        let war: u64 = match rng.below(6) { 0 => dar, 1 => dar.saturating_add(rng.below(1_000_000_000)), 2 => u64::MAX - rng.below(5), 3 => dar.saturating_mul(rng.range(1, 4)), _ => dar.saturating_add(rng.below(100_000_000_000_000)) };
        let data_len = rng.below(40) as usize;
        let lock = always_success_script();
        let o = CellOutput::new_builder().lock(lock).build();
        let occ = occupied_plain(&o, data_len) as u64;
        let cap: u64 = match rng.below(6) { 0 => occ, 1 => occ - 1, 2 => occ + 1, 3 => u64::MAX - rng.below(3), _ => occ + (rng.next() >> rng.range(1, 40)) };
        let o = o.as_builder().capacity(Capacity::shannons(cap)).build();
        let dh = HeaderBuilder::default().number(5u64).dao(pack_dao_data(dar, Capacity::shannons(1), Capacity::zero(), Capacity::zero())).build();
        let wh = HeaderBuilder::default().number(9u64).dao(pack_dao_data(war, Capacity::shannons(1), Capacity::zero(), Capacity::zero())).build();
        let mut headers = HashMap::new();
        headers.insert(dh.hash(), dh.clone());
        headers.insert(wh.hash(), wh.clone());
        let loader = MockLoader { headers };
        let got = std::panic::catch_unwind(std::panic::AssertUnwindSafe(|| {
            DaoCalculator::new(&consensus, &loader).calculate_maximum_withdraw(&o, Capacity::bytes(data_len).unwrap(), &dh.hash(), &wh.hash()).ok().map(|c| c.as_u64())
        })).unwrap_or(None);
        // the rule: occupied + floor(counted * AR_withdraw / AR_deposit), when it is representable
        if cap >= occ && dar != 0 {
            let exact = (cap - occ) as u128 * war as u128 / dar as u128 + occ as u128;
            if exact < (1u128 << 64) && got.map(|x| x as u128) != Some(exact) {
                viol.push(json!({"what": "calculate_maximum_withdraw is not occupied + counted_capacity * AR_withdraw / AR_deposit", "detail": {"capacity": cap, "occupied": occ, "deposit_ar": dar, "withdraw_ar": war, "observed": got, "expected": exact.to_string()}}));
            }
            if exact >= (1u128 << 64) { bump(stats, "withdraw_cases_beyond_u64", 1); }
        } else if got.is_some() {
            viol.push(json!({"what": "calculate_maximum_withdraw answered for capacity < occupied or a zero deposit rate", "detail": {"capacity": cap, "occupied": occ, "deposit_ar": dar}}));
        }
        let sh = i % shards;
        files[sh].push(3, format!("({}, {}, {}, {}, {})", coq_n(cap as u128), coq_n(occ as u128), coq_n(dar as u128), coq_n(war as u128), coq_option(&got, |x| coq_n(*x as u128))));
        descs[sh].entry("withdraw".into()).or_default().push(json!({"capacity": cap, "occupied": occ, "deposit_ar": dar, "withdraw_ar": war, "observed": got}));
        *evaluations += 1;
    }
    bump(stats, "withdraw_cases", n as u64);
}
