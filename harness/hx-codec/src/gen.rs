//! Support types of the generated schema code (gen_schema.rs): the value
//! generator state, the accessor-walk counter and the decode verdict.
use ckb_types::packed;
use hx_common::Rng;
use std::collections::BTreeMap;

#[derive(Default)]
pub struct Walk {
    pub n: u64,
    pub acc: u64,
    /// also call the header accessors of tables (total_size, field_count, count_extra_fields, has_extra_fields)
    pub deep: bool,
    pub empty_table_panics: u64,
}
impl Walk {
    #[inline]
    pub fn visit(&mut self, x: usize) {
        self.n += 1;
        self.acc = self.acc.wrapping_mul(31).wrapping_add(x as u64);
    }
}

#[derive(Clone, Debug)]
pub struct Verdict {
    /// Reader::from_slice
    pub strict: bool,
    /// Entity::from_slice
    pub strict_entity: bool,
    /// Reader::from_compatible_slice
    pub compat: bool,
    pub compat_entity: bool,
    /// the value rebuilt field by field through accessors and builders
    pub rebuilt: Option<Vec<u8>>,
    pub visits: u64,
    pub empty_table_panics: u64,
}

pub struct Gen {
    pub rng: Rng,
    pub depth: u32,
    pub budget: i64,
    /// enumerations restricted to values the JSON layer can represent
    pub json_safe: bool,
    /// every option Some, every vector non-empty, arrays random: pairwise distinct non-default fields
    pub distinct: bool,
    /// allow large byte vectors
    pub big: bool,
    /// probability (per mille) of appending an extra field to a table
    pub extra_permille: u64,
    pub extras_inserted: u64,
    pub arm_counter: BTreeMap<&'static str, usize>,
    pub stats: BTreeMap<String, u64>,
}

impl Gen {
    pub fn new(rng: Rng) -> Self {
        Gen {
            rng,
            depth: 0,
            budget: 60,
            json_safe: false,
            distinct: false,
            big: false,
            extra_permille: 0,
            extras_inserted: 0,
            arm_counter: BTreeMap::new(),
            stats: BTreeMap::new(),
        }
    }
    pub fn reset(&mut self, budget: i64) {
        self.depth = 0;
        self.budget = budget;
        self.extras_inserted = 0;
    }
    fn count(&mut self, k: &str) {
        *self.stats.entry(k.to_string()).or_default() += 1;
    }
    pub fn enter(&mut self, _name: &'static str, _kind: &'static str) {
        self.depth += 1;
    }
    pub fn leave(&mut self) {
        self.depth -= 1;
    }
    pub fn byte_field(&mut self, owner: &'static str, field: &'static str) -> packed::Byte {
        let b: u8 = if self.json_safe && owner == "Script" && field == "hash_type" {
            *self.rng.pick(&[0u8, 1, 2, 4, 6, 254, 1, 2])
        } else if self.json_safe && owner == "CellDep" && field == "dep_type" {
            self.rng.below(2) as u8
        } else if self.distinct {
            self.rng.range(1, 255) as u8
        } else {
            match self.rng.below(6) {
                0 => 0,
                1 => 255,
                2 => 1,
                _ => self.rng.below(256) as u8,
            }
        };
        b.into()
    }
    pub fn array_bytes(&mut self, _name: &'static str, n: usize) -> Vec<u8> {
        let mode = if self.distinct { 9 } else { self.rng.below(10) };
        match mode {
            0 => {
                self.count("array_all_zero");
                vec![0u8; n]
            }
            1 => {
                self.count("array_all_ff");
                vec![0xffu8; n]
            }
            2 | 3 => {
                // small little-endian number
                let mut v = vec![0u8; n];
                v[0] = self.rng.below(256) as u8;
                if n > 1 && self.rng.chance(1, 2) {
                    v[1] = self.rng.below(4) as u8;
                }
                v
            }
            4 => {
                // high bit only / max-1
                let mut v = vec![0xffu8; n];
                v[0] = 0xfe;
                if self.rng.chance(1, 2) {
                    v = vec![0u8; n];
                    v[n - 1] = 0x80;
                }
                self.count("array_extreme");
                v
            }
            _ => (0..n).map(|_| self.rng.below(256) as u8).collect(),
        }
    }
    pub fn vec_len(&mut self, _name: &'static str, is_byte: bool) -> usize {
        if self.budget <= 0 || self.depth > 9 {
            if self.distinct && self.depth <= 9 {
                return 1;
            }
            self.count("vec_empty");
            return 0;
        }
        let n = if self.distinct {
            self.rng.range(1, 3) as usize
        } else if is_byte {
            match self.rng.below(20) {
                0..=4 => 0,
                5..=7 => 1,
                8..=16 => self.rng.range(2, 40) as usize,
                17 | 18 => self.rng.range(41, 200) as usize,
                _ => {
                    if self.big {
                        self.count("vec_large_bytes");
                        self.rng.range(1000, 4000) as usize
                    } else {
                        self.rng.range(41, 300) as usize
                    }
                }
            }
        } else {
            match self.rng.below(20) {
                0..=5 => 0,
                6..=11 => 1,
                12..=17 => self.rng.range(2, 4) as usize,
                _ => {
                    if self.big {
                        self.count("vec_large_items");
                        self.rng.range(5, 40) as usize
                    } else {
                        self.rng.range(5, 9) as usize
                    }
                }
            }
        };
        if n == 0 {
            self.count("vec_empty");
        }
        if is_byte {
            self.budget -= 1;
        } else {
            self.budget -= n as i64;
        }
        n
    }
    pub fn opt_some(&mut self, _name: &'static str) -> bool {
        let s = self.distinct || self.rng.chance(1, 2);
        self.count(if s { "option_some" } else { "option_none" });
        s
    }
    /// round robin so that every arm of every union is produced
    pub fn union_arm(&mut self, name: &'static str, n: usize) -> usize {
        let c = self.arm_counter.entry(name).or_insert(0);
        let a = *c % n;
        *c += 1;
        self.count("union_values");
        a
    }
    /// table with one more field than the schema declares (what
    /// from_compatible_slice tolerates): header grows by one offset
    pub fn extra_field(&mut self, _name: &'static str, bytes: &[u8]) -> Option<Vec<u8>> {
        if self.extra_permille == 0 || self.rng.below(1000) >= self.extra_permille {
            return None;
        }
        let k = match self.rng.below(10) {
            0..=6 => 1,
            7 | 8 => 2,
            _ => 3,
        };
        let mut b = bytes.to_vec();
        for _ in 0..k {
            let n = self.rng.below(9) as usize;
            let extra: Vec<u8> = (0..n).map(|_| self.rng.below(256) as u8).collect();
            b = add_extra_field(&b, &extra);
        }
        self.extras_inserted += 1;
        self.count("tables_with_extra_field");
        if k > 1 {
            self.count("tables_with_several_extra_fields");
        }
        Some(b)
    }
}

pub fn rd32(b: &[u8]) -> u32 {
    u32::from_le_bytes([b[0], b[1], b[2], b[3]])
}

/// `bytes` is a valid table encoding; returns the encoding with one more field
pub fn add_extra_field(bytes: &[u8], extra: &[u8]) -> Vec<u8> {
    let total = rd32(bytes) as usize;
    assert_eq!(total, bytes.len());
    let (nfields, hdr) = if total == 4 {
        (0usize, 4usize)
    } else {
        let off1 = rd32(&bytes[4..]) as usize;
        (off1 / 4 - 1, off1)
    };
    let new_total = total + 4 + extra.len();
    let mut out = Vec::with_capacity(new_total);
    out.extend_from_slice(&(new_total as u32).to_le_bytes());
    for i in 0..nfields {
        let o = rd32(&bytes[4 + 4 * i..]) + 4;
        out.extend_from_slice(&o.to_le_bytes());
    }
    out.extend_from_slice(&((total + 4) as u32).to_le_bytes());
    out.extend_from_slice(&bytes[hdr..]);
    out.extend_from_slice(extra);
    out
}

/// one byte-level mutation of an encoding; returns the mutant and the mutation class
pub fn mutate(r: &mut Rng, b: &[u8], is_table: bool) -> (Vec<u8>, &'static str) {
    let mut v = b.to_vec();
    let words = b.len() / 4;
    let pick_word = |r: &mut Rng| -> usize {
        if words == 0 {
            0
        } else if r.chance(2, 3) {
            r.below(std::cmp::min(words, 24) as u64) as usize
        } else {
            r.below(words as u64) as usize
        }
    };
    let k = r.below(16);
    match k {
        0..=5 if words > 0 => {
            let w = pick_word(r) * 4;
            let x = rd32(&v[w..]);
            let (nx, tag) = match k {
                0 => (x.wrapping_add(1), "u32+1"),
                1 => (x.wrapping_sub(1), "u32-1"),
                2 => (x.wrapping_add(4), "u32+4"),
                3 => (x.wrapping_sub(4), "u32-4"),
                4 => (0, "u32=0"),
                _ => (if r.chance(1, 2) { 0xffff_ffff } else { b.len() as u32 }, "u32=extreme"),
            };
            v[w..w + 4].copy_from_slice(&nx.to_le_bytes());
            (v, tag)
        }
        6 | 7 if !b.is_empty() => {
            let p = r.below(b.len() as u64) as usize;
            v[p] ^= 1 << r.below(8);
            (v, "bitflip")
        }
        8 | 9 if !b.is_empty() => {
            let p = if r.chance(1, 3) { b.len() - 1 } else { r.below(b.len() as u64) as usize };
            v.truncate(p);
            (v, "truncate")
        }
        10 | 11 => {
            let n = r.range(1, 4);
            for _ in 0..n {
                v.push(if r.chance(1, 2) { 0 } else { r.below(256) as u8 });
            }
            (v, "extend")
        }
        12 if b.len() >= 4 => {
            // extend and fix the total size word: only the inner structure is wrong
            let n = r.range(1, 4) as usize;
            for _ in 0..n {
                v.push(0);
            }
            let l = v.len() as u32;
            v[0..4].copy_from_slice(&l.to_le_bytes());
            (v, "extend+fix-total")
        }
        13 | 14 if is_table && b.len() >= 4 && rd32(b) as usize == b.len() && (b.len() == 4 || (b.len() >= 8 && (rd32(&b[4..]) as usize) <= b.len() && rd32(&b[4..]) >= 8 && rd32(&b[4..]) % 4 == 0 && table_offsets_ok(b))) => {
            let n = r.below(6) as usize;
            let extra: Vec<u8> = (0..n).map(|_| r.below(256) as u8).collect();
            (add_extra_field(b, &extra), "extra-table-field")
        }
        _ => {
            if b.len() >= 8 {
                // swap two words
                let a = pick_word(r) * 4;
                let c = pick_word(r) * 4;
                let (x, y) = (rd32(&v[a..]), rd32(&v[c..]));
                v[a..a + 4].copy_from_slice(&y.to_le_bytes());
                v[c..c + 4].copy_from_slice(&x.to_le_bytes());
                (v, "swap-words")
            } else {
                v.push(0);
                (v, "extend")
            }
        }
    }
}


/// all offsets of the table header are inside the slice (so that add_extra_field can re-base them)
pub fn table_offsets_ok(b: &[u8]) -> bool {
    let off1 = rd32(&b[4..]) as usize;
    (1..off1 / 4).all(|i| (rd32(&b[4 * i..]) as usize) <= b.len())
}
