//! C15 correspondence harness.
//!
//! * schema-driven values (generated code in gen_schema.rs, produced by
//!   tools/mol2v.py from the .mol files) are built through the real molecule
//!   builders; their bytes, the verdicts of from_slice / from_compatible_slice
//!   and the bytes of a field-by-field rebuild through every accessor are
//!   written as Coq cases for Codec/Molecule.v (`check_mol`) to re-compute;
//! * byte-level mutants of valid encodings get the same treatment;
//! * the property predicate (round trip, canonicity of strict decoding,
//!   packed -> JSON -> packed identity, hash coverage, cached hashes in views)
//!   is evaluated directly on the implementation's answers: `impl_violations`.
mod gen;
mod gen_schema;

use ckb_hash::{blake2b_256, new_blake2b};
use ckb_types::{core, packed, prelude::*};
use gen::*;
use gen_schema::{TypeEntry, TYPES};
use hx_common::*;
use serde_json::{json, Value};
use std::collections::{BTreeMap, BTreeSet};
use std::fs;
use std::panic::{catch_unwind, AssertUnwindSafe};

const SHARDS: usize = 16;

struct Out {
    viol: Vec<Value>,
    stats: BTreeMap<String, u64>,
    files: Vec<CaseFile>,
    descs: Vec<BTreeMap<String, Vec<Value>>>,
    shard_payload: Vec<usize>,
    payload_cap: usize,
    next_shard: usize,
    evaluations: u64,
    distinct: BTreeSet<[u8; 8]>,
    samples: Vec<Value>,
}

impl Out {
    fn count(&mut self, k: &str) {
        *self.stats.entry(k.to_string()).or_default() += 1;
    }
    fn violation(&mut self, what: &str, detail: Value) {
        if self.viol.len() < 200 {
            self.viol.push(json!({"what": what, "detail": detail}));
        }
        self.count("impl_violations_total");
    }
    /// group 0 = mol
    fn push_mol(&mut self, ty: &str, bytes: &[u8], v: &Verdict, desc: Value) -> bool {
        let rebuilt_len = match &v.rebuilt {
            Some(r) if r != bytes => r.len(),
            _ => 0,
        };
        let cost = bytes.len() + rebuilt_len + 40;
        // find a shard with room
        for _ in 0..SHARDS {
            let sh = self.next_shard;
            self.next_shard = (self.next_shard + 1) % SHARDS;
            if self.shard_payload[sh] + cost <= self.payload_cap {
                self.shard_payload[sh] += cost;
                let rb = match &v.rebuilt {
                    None => "RNone".to_string(),
                    Some(r) if r == bytes => "RSame".to_string(),
                    Some(r) => format!("(RBytes (hx \"{}\"))", hex(r)),
                };
                self.files[sh].push(
                    0,
                    format!("mkMol T_{} (hx \"{}\") {} {} {}", ty, hex(bytes), coq_bool(v.strict), coq_bool(v.compat), rb),
                );
                self.descs[sh].entry("mol".into()).or_default().push(desc);
                self.count("coq_mol_cases");
                return true;
            }
        }
        false
    }
}

fn silent<F: FnOnce() -> R + std::panic::UnwindSafe, R>(f: F) -> Result<R, String> {
    catch_unwind(f).map_err(|e| {
        if let Some(s) = e.downcast_ref::<String>() {
            s.clone()
        } else if let Some(s) = e.downcast_ref::<&str>() {
            s.to_string()
        } else {
            "panic".to_string()
        }
    })
}

fn check(te: &TypeEntry, bytes: &[u8]) -> Result<Verdict, String> {
    let f = te.check;
    silent(AssertUnwindSafe(|| f(bytes, false)))
}

fn verdict_json(v: &Verdict) -> Value {
    json!({"strict": v.strict, "compat": v.compat, "rebuilt": v.rebuilt.as_ref().map(|r| hex(r))})
}

/// the property predicate for one (type, bytes): everything C15 says about the binary encoding
fn predicate(te: &TypeEntry, bytes: &[u8], v: &Verdict, expect_valid: Option<bool>, ctx: &Value, out: &mut Out) {
    let d = || json!({"type": te.name, "bytes": hex(bytes), "rust": verdict_json(v), "case": ctx});
    if v.strict != v.strict_entity || v.compat != v.compat_entity {
        out.violation("Reader and Entity disagree on accepting a slice", d());
    }
    if v.strict && !v.compat {
        out.violation("strict decoding accepts a slice that compatible decoding rejects", d());
    }
    if v.strict && v.rebuilt.as_deref() != Some(bytes) {
        out.violation("a strictly accepted byte string is not the canonical encoding of its value (field-by-field rebuild differs)", d());
    }
    if let Some(true) = expect_valid {
        if !v.strict {
            out.violation("encode -> strict decode fails on a value built by the generated builders", d());
        }
    }
    if let Some(r) = &v.rebuilt {
        // what compatible mode decoded must be a value whose own encoding round-trips
        match check(te, r) {
            Ok(v2) => {
                if !v2.strict || v2.rebuilt.as_deref() != Some(&r[..]) {
                    out.violation("re-encoding of a decoded value does not decode strictly to itself", d());
                }
            }
            Err(p) => out.violation(&format!("panic while decoding a rebuilt value: {p}"), d()),
        }
        if r.len() > bytes.len() {
            out.violation("re-encoded value is larger than the accepted input", d());
        }
    }
}

fn key8(ty: &str, b: &[u8]) -> [u8; 8] {
    let mut h = new_blake2b();
    h.update(ty.as_bytes());
    h.update(b);
    let mut o = [0u8; 32];
    h.finalize(&mut o);
    o[..8].try_into().unwrap()
}

// ------------------------------------------------------------ hashes ----
fn b2(x: &[u8]) -> [u8; 32] {
    blake2b_256(x)
}
fn b2cat(parts: &[&[u8]]) -> [u8; 32] {
    let mut h = new_blake2b();
    for p in parts {
        h.update(p);
    }
    let mut o = [0u8; 32];
    h.finalize(&mut o);
    o
}
/// complete binary merkle tree root, array formulation (independent of the
/// queue algorithm of merkle-cbt): nodes[i] = merge(nodes[2i+1], nodes[2i+2])
fn my_cbmt(leaves: &[[u8; 32]]) -> [u8; 32] {
    let n = leaves.len();
    if n == 0 {
        return [0u8; 32];
    }
    let mut nodes = vec![[0u8; 32]; n - 1];
    nodes.extend_from_slice(leaves);
    for i in (0..n - 1).rev() {
        nodes[i] = b2cat(&[&nodes[2 * i + 1], &nodes[2 * i + 2]]);
    }
    nodes[0]
}

#[derive(Clone, Default, PartialEq, Eq, PartialOrd, Ord, Debug)]
struct Sym(String);
struct MergeSym;
impl merkle_cbt::merkle_tree::Merge for MergeSym {
    type Item = Sym;
    fn merge(l: &Sym, r: &Sym) -> Sym {
        Sym(format!("(MNode {} {})", l.0, r.0))
    }
}

fn h32(b: &packed::Byte32) -> [u8; 32] {
    b.as_slice().try_into().unwrap()
}

fn hash_checks(g: &mut Gen, out: &mut Out, n_tx: usize, n_blk: usize) {
    // ---- transactions
    for i in 0..n_tx {
        g.reset(40);
        let tx = gen_schema::gen_Transaction(g);
        out.evaluations += 1;
        let ctx = json!({"stream": "hash-tx", "type": "Transaction", "bytes": hex(tx.as_slice())});
        let view = tx.clone().into_view();
        let want_h = b2(tx.raw().as_slice());
        let want_w = b2(tx.as_slice());
        if h32(&view.hash()) != want_h || h32(&tx.calc_tx_hash()) != want_h {
            out.violation("cached/calculated tx hash differs from blake2b(raw transaction)", ctx.clone());
        }
        if h32(&view.witness_hash()) != want_w || h32(&tx.calc_witness_hash()) != want_w {
            out.violation("cached/calculated witness hash differs from blake2b(transaction)", ctx.clone());
        }
        // witnesses only
        g.reset(20);
        let mut w2 = gen_schema::gen_BytesVec(g);
        if w2.as_slice() == tx.witnesses().as_slice() {
            w2 = w2.as_builder().push(packed::Bytes::default()).build();
        }
        let t2 = tx.clone().as_builder().witnesses(w2).build();
        if t2.calc_tx_hash() != tx.calc_tx_hash() {
            out.violation("tx hash changed when only the witnesses changed", json!({"case": ctx, "mutant": hex(t2.as_slice())}));
        }
        if t2.calc_witness_hash() == tx.calc_witness_hash() {
            out.violation("witness hash unchanged although the witnesses changed", json!({"case": ctx, "mutant": hex(t2.as_slice())}));
        }
        out.count("hash_tx_witness_mutations");
        // every raw field
        let raw = tx.raw();
        let field = i % 6;
        g.reset(20);
        let raw2 = match field {
            0 => {
                let mut v = gen_schema::gen_Uint32(g);
                if v.as_slice() == raw.version().as_slice() {
                    v = packed::Uint32::from_slice(&[1, 2, 3, 4]).unwrap();
                    if v.as_slice() == raw.version().as_slice() {
                        v = packed::Uint32::default();
                    }
                }
                raw.clone().as_builder().version(v).build()
            }
            1 => raw.clone().as_builder().cell_deps(raw.cell_deps().as_builder().push(gen_schema::gen_CellDep(g)).build()).build(),
            2 => raw.clone().as_builder().header_deps(raw.header_deps().as_builder().push(gen_schema::gen_Byte32(g)).build()).build(),
            3 => raw.clone().as_builder().inputs(raw.inputs().as_builder().push(gen_schema::gen_CellInput(g)).build()).build(),
            4 => raw.clone().as_builder().outputs(raw.outputs().as_builder().push(gen_schema::gen_CellOutput(g)).build()).build(),
            _ => raw.clone().as_builder().outputs_data(raw.outputs_data().as_builder().push(gen_schema::gen_Bytes(g)).build()).build(),
        };
        let t3 = tx.clone().as_builder().raw(raw2).build();
        if t3.calc_tx_hash() == tx.calc_tx_hash() || t3.calc_witness_hash() == tx.calc_witness_hash() {
            out.violation("a raw-transaction field changed but tx hash / witness hash did not", json!({"case": ctx, "field": field, "mutant": hex(t3.as_slice())}));
        }
        out.count("hash_tx_field_mutations");
    }
    // ---- headers
    for i in 0..n_tx {
        g.reset(10);
        let h = gen_schema::gen_Header(g);
        out.evaluations += 1;
        let ctx = json!({"stream": "hash-header", "type": "Header", "bytes": hex(h.as_slice())});
        let view = h.clone().into_view();
        if h32(&view.hash()) != b2(h.as_slice()) || h32(&h.calc_header_hash()) != b2(h.as_slice()) {
            out.violation("cached/calculated header hash differs from blake2b(header)", ctx.clone());
        }
        if h32(&h.calc_pow_hash()) != b2(h.raw().as_slice()) {
            out.violation("pow hash differs from blake2b(raw header)", ctx.clone());
        }
        // flip one byte anywhere in the 208 bytes: the hash must change
        let mut b = h.as_slice().to_vec();
        let p = (i * 7) % b.len();
        b[p] ^= 0x10;
        let h2 = packed::Header::from_slice(&b).unwrap();
        if h2.calc_header_hash() == h.calc_header_hash() {
            out.violation("header hash unchanged after a header byte changed", json!({"case": ctx, "byte": p}));
        }
        if p >= 192 && h2.calc_pow_hash() != h.calc_pow_hash() {
            out.violation("pow hash covers the nonce", json!({"case": ctx, "byte": p}));
        }
    }
    // ---- blocks
    for i in 0..n_blk {
        g.reset(30);
        let with_ext = i % 2 == 1;
        let block: packed::Block = if with_ext && i % 8 == 1 {
            // a present but empty extension field
            gen_schema::gen_BlockV1(g).as_builder().extension(packed::Bytes::default()).build().as_v0()
        } else if with_ext {
            gen_schema::gen_BlockV1(g).as_v0()
        } else {
            gen_schema::gen_Block(g)
        };
        out.evaluations += 1;
        let ctx = json!({"stream": "hash-block", "type": if with_ext {"BlockV1"} else {"Block"}, "bytes": hex(block.as_slice())});
        let r = silent(AssertUnwindSafe(|| {
            let mut bad: Vec<String> = vec![];
            let view = block.clone().into_view_without_reset_header();
            if h32(&view.hash()) != b2(block.header().as_slice()) {
                bad.push("BlockView.hash".into());
            }
            let txh: Vec<[u8; 32]> = block.transactions().into_iter().map(|t| b2(t.raw().as_slice())).collect();
            let wth: Vec<[u8; 32]> = block.transactions().into_iter().map(|t| b2(t.as_slice())).collect();
            if view.tx_hashes().iter().map(h32).collect::<Vec<_>>() != txh {
                bad.push("BlockView.tx_hashes".into());
            }
            if view.tx_witness_hashes().iter().map(h32).collect::<Vec<_>>() != wth {
                bad.push("BlockView.tx_witness_hashes".into());
            }
            let unh: Vec<[u8; 32]> = block.uncles().into_iter().map(|u| b2(u.header().as_slice())).collect();
            if view.uncle_hashes().into_iter().map(|h| h32(&h)).collect::<Vec<_>>() != unh {
                bad.push("BlockView.uncle_hashes".into());
            }
            let want_root = my_cbmt(&[my_cbmt(&txh), my_cbmt(&wth)]);
            if h32(&view.calc_transactions_root()) != want_root {
                bad.push("calc_transactions_root".into());
            }
            let ids: Vec<u8> = block.proposals().into_iter().flat_map(|p| p.as_slice().to_vec()).collect();
            let want_prop = if block.proposals().is_empty() { [0u8; 32] } else { b2(&ids) };
            if h32(&view.calc_proposals_hash()) != want_prop {
                bad.push("calc_proposals_hash".into());
            }
            let uh: Vec<u8> = unh.iter().flat_map(|h| h.to_vec()).collect();
            let want_uncles = if unh.is_empty() { [0u8; 32] } else { b2(&uh) };
            if h32(&view.calc_uncles_hash()) != want_uncles {
                bad.push("calc_uncles_hash".into());
            }
            let ext = block.extension();
            if ext.is_some() != with_ext {
                bad.push("extension presence".into());
            }
            let want_extra = match &ext {
                None => want_uncles,
                Some(e) => b2cat(&[&want_uncles, &b2(&e.raw_data())]),
            };
            if h32(&view.calc_extra_hash().extra_hash()) != want_extra {
                bad.push("calc_extra_hash".into());
            }
            // into_view() recomputes the header commitments
            let v2 = block.clone().into_view();
            let raw = v2.data().header().raw();
            if h32(&raw.transactions_root()) != want_root || h32(&raw.proposals_hash()) != want_prop || h32(&raw.extra_hash()) != want_extra {
                bad.push("into_view header commitments".into());
            }
            if v2.data().transactions().as_slice() != block.transactions().as_slice() || v2.data().uncles().as_slice() != block.uncles().as_slice() {
                bad.push("into_view changed the body".into());
            }
            // ResetBlock::reset_header (BlockTemplate -> packed::Block, the bytes a miner hashes) must write
            // the same commitments without the help of a later into_view()
            {
                let rb = block.clone().reset_header();
                let raw = rb.header().raw();
                if h32(&raw.transactions_root()) != want_root { bad.push("reset_header: transactions_root".into()); }
                if h32(&raw.proposals_hash()) != want_prop { bad.push("reset_header: proposals_hash".into()); }
                if h32(&raw.extra_hash()) != want_extra { bad.push("reset_header: extra_hash".into()); }
                if rb.as_slice() != v2.data().as_slice() { bad.push("reset_header and into_view produce different blocks".into()); }
                let txh_p: Vec<packed::Byte32> = txh.iter().map(|h| h.pack()).collect();
                let wth_p: Vec<packed::Byte32> = wth.iter().map(|h| h.pack()).collect();
                let rb2 = block.clone().reset_header_with_hashes(&txh_p, &wth_p);
                if rb2.as_slice() != rb.as_slice() { bad.push("reset_header_with_hashes(tx hashes, witness hashes) differs from reset_header".into()); }
            }
            // a view reassembled from its parts, as the store does (new_unchecked / new_unchecked_with_extension)
            {
                let parts = block.clone().into_view_without_reset_header();
                let body: Vec<core::TransactionView> = parts.transactions();
                let v4 = match parts.extension() {
                    Some(e) => core::BlockView::new_unchecked_with_extension(parts.header(), parts.uncles(), body, parts.data().proposals(), e),
                    None => core::BlockView::new_unchecked(parts.header(), parts.uncles(), body, parts.data().proposals()),
                };
                if v4.data().as_slice() != block.as_slice() { bad.push("reassembled view: packed bytes differ".into()); }
                if v4.hash() != parts.hash() { bad.push("reassembled view: block hash".into()); }
                if v4.tx_hashes().iter().map(h32).collect::<Vec<_>>() != txh { bad.push("reassembled view: cached tx hashes".into()); }
                if v4.tx_witness_hashes().iter().map(h32).collect::<Vec<_>>() != wth { bad.push("reassembled view: cached tx witness hashes".into()); }
                if v4.transactions().iter().map(|t| h32(&t.witness_hash())).collect::<Vec<_>>() != wth { bad.push("reassembled view: witness hash of the transaction views".into()); }
                if v4.uncle_hashes().into_iter().map(|h| h32(&h)).collect::<Vec<_>>() != unh { bad.push("reassembled view: cached uncle hashes".into()); }
                if h32(&v4.calc_transactions_root()) != want_root { bad.push("reassembled view: calc_transactions_root".into()); }
            }
            // index accessors of the views take peer-supplied indexes (GetBlockTransactions): in range they
            // answer, at and beyond the end they answer None, never panic
            {
                let parts = block.clone().into_view_without_reset_header();
                let nu = parts.uncles().data().len();
                let nt = parts.transactions().len();
                for i in [0usize, nu.saturating_sub(1), nu, nu + 1, u32::MAX as usize] {
                    let r = std::panic::catch_unwind(AssertUnwindSafe(|| parts.uncles().get(i).is_some()));
                    match r { Ok(some) => if some != (i < nu) { bad.push(format!("uncles().get({i}) with {nu} uncles answers {some}")); }, Err(_) => bad.push(format!("uncles().get({i}) with {nu} uncles panics")) }
                }
                for i in [0usize, nt.saturating_sub(1), nt, nt + 1, u32::MAX as usize] {
                    let r = std::panic::catch_unwind(AssertUnwindSafe(|| parts.transaction(i).is_some()));
                    match r { Ok(some) => if some != (i < nt) { bad.push(format!("transaction({i}) with {nt} transactions answers {some}")); }, Err(_) => bad.push(format!("transaction({i}) with {nt} transactions panics")) }
                }
                for tx in parts.transactions().iter().take(3) {
                    let no = tx.outputs().len();
                    // output_with_data requires outputs_data to be as long as outputs (checked by the
                    // non-contextual verifier before anything uses it): asked only then
                    let paired = tx.outputs_data().len() == no;
                    for i in [0usize, no.saturating_sub(1), no, no + 1] {
                        let r = std::panic::catch_unwind(AssertUnwindSafe(|| (tx.output(i).is_some(), if paired { tx.output_with_data(i).is_some() } else { tx.output(i).is_some() })));
                        match r { Ok((a, b)) => if a != (i < no) || (b && !a) { bad.push(format!("output({i}) / output_with_data({i}) with {no} outputs answer {a} / {b}")); }, Err(_) => bad.push(format!("output({i}) with {no} outputs panics")) }
                    }
                }
            }
            // the advanced builder (BlockBuilder::build resets the header) must commit to the same content
            let v3 = view.as_advanced_builder().build();
            let raw3 = v3.data().header().raw();
            if h32(&raw3.transactions_root()) != want_root || h32(&raw3.proposals_hash()) != want_prop || h32(&raw3.extra_hash()) != want_extra {
                bad.push("advanced BlockBuilder::build header commitments".into());
            }
            if v3.extension().map(|e| e.raw_data()) != ext.as_ref().map(|e| e.raw_data()) || v3.data().transactions().as_slice() != block.transactions().as_slice() {
                bad.push("advanced BlockBuilder::build changed the body".into());
            }
            if h32(&v3.extra_hash()) != h32(&v3.calc_extra_hash().extra_hash()) || v3.hash() != v2.hash() {
                bad.push("advanced BlockBuilder::build and into_view disagree on the block hash / extra hash".into());
            }
            (bad, want_root, want_prop, want_extra)
        }));
        let (bad, root, prop, extra) = match r {
            Ok(x) => x,
            Err(p) => {
                out.violation(&format!("panic in block view / hash computation: {p}"), ctx.clone());
                continue;
            }
        };
        for b in bad {
            out.violation(&format!("cached or calculated hash differs from recomputation: {b}"), ctx.clone());
        }
        // mutations: the right commitment must move
        let txs: Vec<packed::Transaction> = block.transactions().into_iter().collect();
        let rebuild = |b: &packed::Block, f: &dyn Fn(packed::BlockBuilder) -> packed::BlockBuilder| -> packed::Block {
            let nb = f(b.clone().as_builder()).build();
            match b.extension() {
                Some(e) => packed::BlockV1::new_builder()
                    .header(nb.header())
                    .uncles(nb.uncles())
                    .transactions(nb.transactions())
                    .proposals(nb.proposals())
                    .extension(e)
                    .build()
                    .as_v0(),
                None => nb,
            }
        };
        let roots = |b: &packed::Block| -> ([u8; 32], [u8; 32], [u8; 32]) {
            let v = b.clone().into_view();
            let raw = v.data().header().raw();
            (h32(&raw.transactions_root()), h32(&raw.proposals_hash()), h32(&raw.extra_hash()))
        };
        if txs.len() >= 2 && txs[0].as_slice() != txs[1].as_slice() {
            let mut t = txs.clone();
            t.swap(0, 1);
            let nb = rebuild(&block, &|b| b.transactions(t.clone().pack()));
            let (r2, p2, e2) = roots(&nb);
            if r2 == root || p2 != prop || e2 != extra {
                out.violation("swapping two transactions did not change exactly the transactions root", json!({"case": ctx}));
            }
            out.count("hash_block_swap_txs");
        }
        if !txs.is_empty() {
            let mut t = txs.clone();
            let k = i % t.len();
            let w = t[k].witnesses().as_builder().push(packed::Bytes::default()).build();
            t[k] = t[k].clone().as_builder().witnesses(w).build();
            let nb = rebuild(&block, &|b| b.transactions(t.clone().pack()));
            let (r2, _, _) = roots(&nb);
            if r2 == root {
                out.violation("changing a witness did not change the transactions root", json!({"case": ctx}));
            }
            out.count("hash_block_witness_mutation");
        }
        {
            g.reset(5);
            let np = block.proposals().as_builder().push(gen_schema::gen_ProposalShortId(g)).build();
            let nb = rebuild(&block, &|b| b.proposals(np.clone()));
            let (r2, p2, e2) = roots(&nb);
            if p2 == prop || r2 != root || e2 != extra {
                out.violation("adding a proposal did not change exactly the proposals hash", json!({"case": ctx}));
            }
            g.reset(5);
            let nu = block.uncles().as_builder().push(gen_schema::gen_UncleBlock(g)).build();
            let nb = rebuild(&block, &|b| b.uncles(nu.clone()));
            let (r2, p2, e2) = roots(&nb);
            if e2 == extra || r2 != root || p2 != prop {
                out.violation("adding an uncle did not change exactly the extra hash", json!({"case": ctx}));
            }
            // extension: add / change
            let new_ext: packed::Bytes = match block.extension() {
                Some(e) => e.as_builder().push(packed::Byte::new(7)).build(),
                None => packed::Bytes::default(),
            };
            let nb = packed::BlockV1::new_builder()
                .header(block.header())
                .uncles(block.uncles())
                .transactions(block.transactions())
                .proposals(block.proposals())
                .extension(new_ext)
                .build()
                .as_v0();
            let (r2, p2, e2) = roots(&nb);
            if e2 == extra || r2 != root || p2 != prop {
                out.violation("adding/changing the extension did not change exactly the extra hash", json!({"case": ctx}));
            }
            out.count("hash_block_commitment_mutations");
        }
    }
}

// -------------------------------------------------------------- JSON ----
macro_rules! json_roundtrip {
    ($out:expr, $g:expr, $n:expr, $label:literal, $packed:ty, $json:ty, $genf:expr) => {{
        for i in 0..$n {
            $g.reset(25);
            $g.distinct = i % 2 == 0;
            let p: $packed = $genf($g);
            $out.evaluations += 1;
            $out.count(concat!("json_", $label));
            let ctx = json!({"stream": "json", "type": $label, "bytes": hex(p.as_slice())});
            let pc = p.clone();
            let r = silent(AssertUnwindSafe(move || {
                let j: $json = pc.into();
                let s = serde_json::to_string(&j).unwrap();
                let j2: $json = serde_json::from_str(&s).map_err(|e| e.to_string())?;
                let s2 = serde_json::to_string(&j2).unwrap();
                let p2: $packed = j2.into();
                Ok::<_, String>((s, s2, p2))
            }));
            match r {
                Err(p) => $out.violation(&format!("panic in packed <-> JSON conversion: {p}"), ctx),
                Ok(Err(e)) => $out.violation(&format!("JSON printed by the node does not parse back: {e}"), ctx),
                Ok(Ok((s, s2, p2))) => {
                    if p2.as_slice() != p.as_slice() {
                        $out.violation("packed -> JSON -> packed is not the identity", json!({"case": ctx, "json": s, "back": hex(p2.as_slice())}));
                    }
                    if s != s2 {
                        $out.violation("JSON string -> value -> string is not the identity", json!({"case": ctx, "json": s, "json2": s2}));
                    }
                    if $out.samples.len() < 3 && i == 0 {
                        $out.samples.push(json!({"stream": "json", "type": $label, "packed": hex(p.as_slice()), "json": s}));
                    }
                }
            }
        }
        $g.distinct = false;
    }};
}

fn json_checks(g: &mut Gen, out: &mut Out, n: usize) {
    use ckb_jsonrpc_types as j;
    g.json_safe = true;
    json_roundtrip!(out, g, n, "Script", packed::Script, j::Script, gen_schema::gen_Script);
    json_roundtrip!(out, g, n, "OutPoint", packed::OutPoint, j::OutPoint, gen_schema::gen_OutPoint);
    json_roundtrip!(out, g, n, "CellInput", packed::CellInput, j::CellInput, gen_schema::gen_CellInput);
    json_roundtrip!(out, g, n, "CellOutput", packed::CellOutput, j::CellOutput, gen_schema::gen_CellOutput);
    json_roundtrip!(out, g, n, "CellDep", packed::CellDep, j::CellDep, gen_schema::gen_CellDep);
    json_roundtrip!(out, g, n, "Transaction", packed::Transaction, j::Transaction, gen_schema::gen_Transaction);
    json_roundtrip!(out, g, n, "Header", packed::Header, j::Header, gen_schema::gen_Header);
    json_roundtrip!(out, g, n, "UncleBlock", packed::UncleBlock, j::UncleBlock, gen_schema::gen_UncleBlock);
    json_roundtrip!(out, g, n / 2, "Block", packed::Block, j::Block, gen_schema::gen_Block);
    json_roundtrip!(out, g, n / 2, "BlockV1", packed::Block, j::Block, |g: &mut Gen| gen_schema::gen_BlockV1(g).as_v0());
    // views: JSON view -> core view -> JSON view
    for i in 0..n / 2 {
        g.reset(25);
        g.distinct = i % 2 == 0;
        let b = if i % 3 == 0 { gen_schema::gen_BlockV1(g).as_v0() } else { gen_schema::gen_Block(g) };
        out.evaluations += 1;
        out.count("json_BlockView");
        let ctx = json!({"stream": "json-view", "type": "Block", "bytes": hex(b.as_slice())});
        let bc = b.clone();
        let r = silent(AssertUnwindSafe(move || {
            let v: core::BlockView = bc.into_view();
            let jv: j::BlockView = v.clone().into();
            let s = serde_json::to_string(&jv).unwrap();
            let jv2: j::BlockView = serde_json::from_str(&s).map_err(|e| e.to_string())?;
            let v2: core::BlockView = jv2.into();
            Ok::<_, String>((v, v2))
        }));
        match r {
            Err(p) => out.violation(&format!("panic in BlockView <-> JSON conversion: {p}"), ctx),
            Ok(Err(e)) => out.violation(&format!("JSON BlockView does not parse back: {e}"), ctx),
            Ok(Ok((v, v2))) => {
                if v.data().as_slice() != v2.data().as_slice() || v.hash() != v2.hash() || v.tx_hashes() != v2.tx_hashes() || v.tx_witness_hashes() != v2.tx_witness_hashes() {
                    out.violation("BlockView -> JSON -> BlockView is not the identity", ctx);
                }
            }
        }
    }
    g.distinct = false;
    g.json_safe = false;
}

fn str_codes(s: &str) -> String {
    coq_list(s.as_bytes(), |b| coq_n(*b as u128))
}

fn uint_cases(r: &mut Rng, out: &mut Out, n: usize) {
    use ckb_jsonrpc_types::{Uint128, Uint32, Uint64};
    let g_print = 1usize;
    let g_parse = 2usize;
    let mut nums: Vec<u128> = vec![0, 1, 9, 10, 15, 16, 17, 255, 256, 0xffff_ffff, 0x1_0000_0000, u64::MAX as u128, u64::MAX as u128 + 1, u128::MAX, u128::MAX - 1];
    for _ in 0..n {
        let bits = r.range(1, 128);
        nums.push(if bits == 128 { r.next() as u128 | ((r.next() as u128) << 64) } else { (r.next() as u128 | ((r.next() as u128) << 64)) & ((1u128 << bits) - 1) });
    }
    let mut ci = 0usize;
    for v in &nums {
        for bits in [32u32, 64, 128] {
            if bits < 128 && *v >> bits != 0 {
                continue;
            }
            let s = match bits {
                32 => serde_json::to_string(&Uint32::from(*v as u32)).unwrap(),
                64 => serde_json::to_string(&Uint64::from(*v as u64)).unwrap(),
                _ => serde_json::to_string(&Uint128::from(*v)).unwrap(),
            };
            let inner = s.trim_matches('"').to_string();
            out.evaluations += 1;
            out.count("json_uint_print");
            // property: canonical form and round trip, directly on the implementation
            let back: Option<u128> = match bits {
                32 => serde_json::from_str::<Uint32>(&s).ok().map(|x| x.value() as u128),
                64 => serde_json::from_str::<Uint64>(&s).ok().map(|x| x.value() as u128),
                _ => serde_json::from_str::<Uint128>(&s).ok().map(|x| x.value()),
            };
            let canon = inner.starts_with("0x") && inner.len() >= 3 && inner[2..].bytes().all(|c| c.is_ascii_digit() || (b'a'..=b'f').contains(&c)) && (inner == "0x0" || !inner[2..].starts_with('0'));
            if back != Some(*v) || !canon {
                out.violation("JSON uint print/parse: not canonical or does not round-trip", json!({"bits": bits, "value": v.to_string(), "printed": s}));
            }
            let sh = ci % SHARDS;
            ci += 1;
            out.files[sh].push(g_print, format!("({}, {}, {})", coq_n(bits as u128), coq_n(*v), str_codes(&inner)));
            out.descs[sh].entry("uprint".into()).or_default().push(json!({"bits": bits, "value": v.to_string(), "printed": inner}));
        }
    }
    let mut strs: Vec<String> = ["", "0", "0x", "0X1", "0x0", "0x00", "0x01", "0x1", "0xf", "0xF", "0xaB", "0x+1", "0x+", "0x-1", "0x-", "0x+0", "0x+01", "0x1g", "0xg", " 0x1", "0x1 ", "0x 1", "1f", "x1", "0xffffffff", "0x100000000", "0xffffffffffffffff", "0x10000000000000000", "0xffffffffffffffffffffffffffffffff", "0x100000000000000000000000000000000", "0x+ffffffff", "0x0000000001", "0x_1", "0x1_0", "0x\u{e9}", "0x1\u{e9}"]
        .iter()
        .map(|s| s.to_string())
        .collect();
    for _ in 0..n {
        let len = r.range(1, 34) as usize;
        let alphabet = b"0123456789abcdefABCDEF+-xg ";
        let mut s = String::from(if r.chance(9, 10) { "0x" } else { "" });
        for _ in 0..len {
            let c = if r.chance(9, 10) { alphabet[r.below(16) as usize] } else { *r.pick(alphabet) };
            s.push(c as char);
        }
        strs.push(s);
    }
    for s in &strs {
        for bits in [32u32, 64, 128] {
            let q = serde_json::to_string(s).unwrap();
            let res: Option<u128> = match bits {
                32 => serde_json::from_str::<Uint32>(&q).ok().map(|x| x.value() as u128),
                64 => serde_json::from_str::<Uint64>(&q).ok().map(|x| x.value() as u128),
                _ => serde_json::from_str::<Uint128>(&q).ok().map(|x| x.value()),
            };
            out.evaluations += 1;
            out.count(if res.is_some() { "json_uint_parse_ok" } else { "json_uint_parse_err" });
            let sh = ci % SHARDS;
            ci += 1;
            out.files[sh].push(g_parse, format!("({}, {}, {})", coq_n(bits as u128), str_codes(s), coq_option(&res, |v| coq_n(*v))));
            out.descs[sh].entry("uparse".into()).or_default().push(json!({"bits": bits, "string": s, "parsed": res.map(|v| v.to_string())}));
        }
    }
}

fn cbmt_cases(out: &mut Out) {
    let g_cbmt = 3usize;
    let mut ns: Vec<usize> = (0..=40).collect();
    ns.extend_from_slice(&[63, 64, 65, 100, 127, 128, 129, 200]);
    for (i, n) in ns.iter().enumerate() {
        let leaves: Vec<Sym> = (0..*n).map(|k| Sym(format!("(MLeaf {})", coq_n(k as u128)))).collect();
        let root = merkle_cbt::CBMT::<Sym, MergeSym>::build_merkle_root(&leaves);
        let term = if root.0.is_empty() { "MZero".to_string() } else { root.0.clone() };
        out.evaluations += 1;
        out.count("cbmt_symbolic_roots");
        let sh = i % SHARDS;
        out.files[sh].push(g_cbmt, format!("({}, {})", coq_n(*n as u128), term));
        out.descs[sh].entry("cbmt".into()).or_default().push(json!({"leaves": n, "root": term}));
        // ckb's merkle_root over Byte32 against the array formulation
        let hs: Vec<[u8; 32]> = (0..*n).map(|k| b2(&(k as u64).to_le_bytes())).collect();
        let packed_leaves: Vec<packed::Byte32> = hs.iter().map(|h| h.pack()).collect();
        let got = ckb_types::utilities::merkle_root(&packed_leaves);
        if h32(&got) != my_cbmt(&hs) {
            out.violation("merkle_root differs from the complete-binary-tree recomputation", json!({"leaves": n}));
        }
    }
}

fn unhex(s: &str) -> Vec<u8> {
    (0..s.len() / 2).map(|i| u8::from_str_radix(&s[2 * i..2 * i + 2], 16).unwrap()).collect()
}

fn find_case(v: &Value) -> Option<(String, Vec<u8>)> {
    // search the first object that has "type" and "bytes"
    match v {
        Value::Object(m) => {
            if let (Some(Value::String(t)), Some(Value::String(b))) = (m.get("type"), m.get("bytes")) {
                return Some((t.clone(), unhex(b)));
            }
            for (_, x) in m {
                if let Some(r) = find_case(x) {
                    return Some(r);
                }
            }
            None
        }
        Value::Array(a) => a.iter().find_map(find_case),
        _ => None,
    }
}

fn replay(path: &str) -> ! {
    let v: Value = serde_json::from_str(&fs::read_to_string(path).unwrap()).unwrap();
    let what = v.get("violations").and_then(|x| x.get(0)).and_then(|x| x.get("what")).cloned();
    println!("replaying first case of {path}; recorded: {}", what.unwrap_or(Value::Null));
    let Some((ty, bytes)) = find_case(&v) else {
        println!("no (type, bytes) case in the replay file");
        std::process::exit(1)
    };
    let name = if ty == "BlockV1" { "Block".to_string() } else { ty.clone() };
    let Some(te) = TYPES.iter().find(|t| t.name == name) else {
        println!("unknown type {ty}");
        std::process::exit(1)
    };
    let mut out = new_out(&out_dir("C15").join("replay"), 0);
    match check(te, &bytes) {
        Ok(vd) => {
            println!("type {} bytes {} -> {}", te.name, hex(&bytes), verdict_json(&vd));
            predicate(te, &bytes, &vd, None, &json!("replay"), &mut out);
        }
        Err(p) => {
            println!("PANIC {p}");
            std::process::exit(1)
        }
    }
    // JSON / hash streams are deterministic functions of the bytes: run them on this value
    if te.name == "Transaction" {
        if let Ok(tx) = packed::Transaction::from_slice(&bytes) {
            let r = silent(AssertUnwindSafe(|| {
                let j: ckb_jsonrpc_types::Transaction = tx.clone().into();
                let p2: packed::Transaction = j.into();
                p2.as_slice() == tx.as_slice()
            }));
            println!("packed->json->packed identity: {:?}", r);
            println!("tx hash == blake2b(raw): {}", h32(&tx.calc_tx_hash()) == b2(tx.raw().as_slice()));
            println!("witness hash == blake2b(tx): {}", h32(&tx.calc_witness_hash()) == b2(tx.as_slice()));
            if r != Ok(true) || h32(&tx.calc_tx_hash()) != b2(tx.raw().as_slice()) || h32(&tx.calc_witness_hash()) != b2(tx.as_slice()) {
                std::process::exit(1)
            }
        }
    }
    for x in &out.viol {
        println!("PROPERTY VIOLATED: {}", x);
    }
    std::process::exit(if out.viol.is_empty() { 0 } else { 1 })
}

fn new_out(dir: &std::path::Path, cap: usize) -> Out {
    let header = "From CKB Require Import Codec.Molecule gen.Schema Codec.Merkle Codec.Json.";
    let files: Vec<CaseFile> = (0..SHARDS)
        .map(|i| {
            let mut cf = CaseFile::new(dir, &format!("cases_{:02}", i), header);
            cf.group("mol", "mol_case", "check_mol");
            cf.group("uprint", "N * N * list N", "check_print");
            cf.group("uparse", "N * list N * option N", "check_parse");
            cf.group("cbmt", "N * mtree", "check_cbmt");
            cf
        })
        .collect();
    Out {
        viol: vec![],
        stats: BTreeMap::new(),
        files,
        descs: (0..SHARDS).map(|_| BTreeMap::new()).collect(),
        shard_payload: vec![0; SHARDS],
        payload_cap: cap,
        next_shard: 0,
        evaluations: 0,
        distinct: BTreeSet::new(),
        samples: vec![],
    }
}

fn main() {
    std::panic::set_hook(Box::new(|_| {}));
    if let Ok(p) = std::env::var("HX_REPLAY") {
        replay(&p);
    }
    let seed = seed();
    let thorough = tier_is_thorough();
    let dir = out_dir("C15");
    for e in fs::read_dir(&dir).unwrap().flatten() {
        let n = e.file_name().to_string_lossy().to_string();
        if n.starts_with("cases_") || n == "summary.json" {
            let _ = fs::remove_file(e.path());
        }
    }
    let mut out = new_out(&dir, if thorough { 380_000 } else { 110_000 });
    let mut rng = Rng::new(seed);
    let mut g = Gen::new(rng.fork());

    let rounds = if thorough { 400 } else { 40 };
    let mutants_per_value = if thorough { 6 } else { 5 };
    // how many of the cases go to the Coq model (payload-capped); the rest is
    // checked by the property predicate only
    let mut valid_pool: Vec<(usize, Vec<u8>)> = Vec::new();

    // ---- stream A: valid values of every schema type ------------------------
    for round in 0..rounds {
        for (ti, te) in TYPES.iter().enumerate() {
            g.reset(if round % 5 == 4 { 120 } else { 40 });
            g.big = round % 7 == 6;
            g.extra_permille = 0;
            let bytes = (te.gen)(&mut g);
            out.evaluations += 1;
            out.count("values");
            out.count(&format!("kind_{}", te.kind));
            if !out.distinct.insert(key8(te.name, &bytes)) {
                out.count("duplicate_values");
            }
            let ctx = json!({"stream": "value"});
            match check(te, &bytes) {
                Ok(v) => {
                    predicate(te, &bytes, &v, Some(true), &ctx, &mut out);
                    if v.rebuilt.as_deref() != Some(&bytes[..]) {
                        out.violation("encode -> decode -> rebuild changed a value built by the generated builders", json!({"type": te.name, "bytes": hex(&bytes), "rust": verdict_json(&v)}));
                    }
                    if bytes.len() <= 1500 && (round < 6 || rng.chance(1, 4)) {
                        let d = json!({"stream": "value", "type": te.name, "bytes": hex(&bytes), "rust": verdict_json(&v)});
                        if out.samples.len() < 2 && te.name == "Transaction" {
                            out.samples.push(d.clone());
                        }
                        out.push_mol(te.name, &bytes, &v, d);
                    }
                }
                Err(p) => out.violation(&format!("panic while decoding a valid encoding: {p}"), json!({"type": te.name, "bytes": hex(&bytes)})),
            }
            if bytes.len() <= 3000 {
                valid_pool.push((ti, bytes));
            }
        }
    }
    g.big = false;
    // ---- stream B: values whose (nested) tables carry extra fields ----------
    for round in 0..rounds {
        for te in TYPES.iter() {
            if te.kind == "array" || te.kind == "struct" {
                continue;
            }
            g.reset(40);
            g.extra_permille = 250;
            let bytes = (te.gen)(&mut g);
            let extras = g.extras_inserted;
            if extras == 0 {
                continue;
            }
            out.evaluations += 1;
            out.count("compat_values");
            out.distinct.insert(key8(te.name, &bytes));
            let ctx = json!({"stream": "compat-value", "extra_fields": extras});
            match check(te, &bytes) {
                Ok(v) => {
                    predicate(te, &bytes, &v, None, &ctx, &mut out);
                    if v.strict {
                        out.violation("strict decoding accepted a table with an extra field", json!({"type": te.name, "bytes": hex(&bytes)}));
                    }
                    if !v.compat {
                        out.violation("compatible decoding rejected a table with a well-formed extra field", json!({"type": te.name, "bytes": hex(&bytes)}));
                    }
                    if bytes.len() <= 1200 && (round < 4 || rng.chance(1, 5)) {
                        out.push_mol(te.name, &bytes, &v, json!({"stream": "compat-value", "type": te.name, "bytes": hex(&bytes), "rust": verdict_json(&v)}));
                    }
                }
                Err(p) => out.violation(&format!("panic while decoding: {p}"), json!({"type": te.name, "bytes": hex(&bytes)})),
            }
            if bytes.len() <= 3000 && rng.chance(1, 3) {
                let ti = TYPES.iter().position(|t| t.name == te.name).unwrap();
                valid_pool.push((ti, bytes));
            }
        }
    }
    g.extra_permille = 0;
    // ---- stream C: byte-level mutants ----------------------------------------
    let mut accepted_mutants = 0u64;
    for (ti, bytes) in valid_pool.iter() {
        let te = &TYPES[*ti];
        for _ in 0..mutants_per_value {
            let (m, tag) = mutate(&mut rng, bytes, te.kind == "table");
            if &m == bytes {
                continue;
            }
            out.evaluations += 1;
            out.count("mutants");
            out.count(&format!("mutation_{tag}"));
            out.distinct.insert(key8(te.name, &m));
            let ctx = json!({"stream": "mutant", "mutation": tag});
            match check(te, &m) {
                Ok(v) => {
                    predicate(te, &m, &v, None, &ctx, &mut out);
                    if v.compat {
                        accepted_mutants += 1;
                        out.count(if v.strict { "mutants_accepted_strict" } else { "mutants_accepted_compat_only" });
                    } else {
                        out.count("mutants_rejected");
                    }
                    let want = if v.compat { m.len() <= 1500 } else { m.len() <= 600 && rng.chance(1, 2) };
                    if want {
                        out.push_mol(te.name, &m, &v, json!({"stream": "mutant", "mutation": tag, "type": te.name, "bytes": hex(&m), "rust": verdict_json(&v)}));
                    }
                }
                Err(p) => out.violation(&format!("panic while decoding a mutated encoding: {p}"), json!({"type": te.name, "bytes": hex(&m), "mutation": tag})),
            }
        }
    }
    out.stats.insert("mutants_accepted".into(), accepted_mutants);

    // ---- stream D/E: JSON and hashes (implementation-side predicate) ----------
    let mut g2 = Gen::new(rng.fork());
    json_checks(&mut g2, &mut out, if thorough { 1500 } else { 150 });
    hash_checks(&mut g2, &mut out, if thorough { 3000 } else { 300 }, if thorough { 1200 } else { 120 });
    for (k, v) in g.stats.iter().chain(g2.stats.iter()) {
        *out.stats.entry(format!("gen_{k}")).or_default() += v;
    }
    // ---- stream F/G: CBMT shape and JSON uint strings against the model -------
    cbmt_cases(&mut out);
    uint_cases(&mut rng, &mut out, if thorough { 2000 } else { 250 });

    for (i, cf) in out.files.iter().enumerate() {
        cf.write().unwrap();
        fs::write(dir.join(format!("cases_{:02}.json", i)), serde_json::to_string(&out.descs[i]).unwrap()).unwrap();
    }
    let summary = json!({
        "property": "C15",
        "seed": seed,
        "evaluations": out.evaluations,
        "distinct_nontrivial": out.distinct.len(),
        "rule": "schema-driven values of all 127 molecule types built through the generated builders (distinct = distinct (type, bytes)); valid values, values with extra table fields, byte-level mutants (u32 +-1/+-4, bit flips, truncation, extension, extra field, word swaps); JSON round trips on Script..Block; hash recomputation and single-field mutations on transactions, headers, blocks; CBMT shapes; JSON uint strings",
        "distribution": out.stats,
        "samples": out.samples,
        "impl_violations": out.viol,
        "extra_coverage": {"schema_types": TYPES.len(), "coq_payload_bytes": out.shard_payload.iter().sum::<usize>()},
    });
    fs::write(dir.join("summary.json"), serde_json::to_string_pretty(&summary).unwrap()).unwrap();
    println!("hx-codec: {} evaluations, {} coq mol cases, {} implementation-side violations", out.evaluations, out.stats.get("coq_mol_cases").copied().unwrap_or(0), out.viol.len());
}
