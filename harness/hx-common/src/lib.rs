//! Shared helpers of the correspondence harness: PRNG, Coq-source printers,
//! output files.
use std::fmt::Write as _;
use std::fs;
use std::path::{Path, PathBuf};

/// splitmix64: every random choice of a harness run derives from VERIF_SEED.
#[derive(Clone)]
pub struct Rng(pub u64);
impl Rng {
    pub fn new(seed: u64) -> Self {
        Rng(seed ^ 0x9E37_79B9_7F4A_7C15)
    }
    pub fn next(&mut self) -> u64 {
        self.0 = self.0.wrapping_add(0x9E37_79B9_7F4A_7C15);
        let mut z = self.0;
        z = (z ^ (z >> 30)).wrapping_mul(0xBF58_476D_1CE4_E5B9);
        z = (z ^ (z >> 27)).wrapping_mul(0x94D0_49BB_1331_11EB);
        z ^ (z >> 31)
    }
    /// uniform in [0, n)
    pub fn below(&mut self, n: u64) -> u64 {
        if n == 0 {
            0
        } else {
            self.next() % n
        }
    }
    /// uniform in [lo, hi]
    pub fn range(&mut self, lo: u64, hi: u64) -> u64 {
        lo + self.below(hi - lo + 1)
    }
    pub fn chance(&mut self, num: u64, den: u64) -> bool {
        self.below(den) < num
    }
    pub fn pick<'a, T>(&mut self, xs: &'a [T]) -> &'a T {
        &xs[self.below(xs.len() as u64) as usize]
    }
    pub fn fork(&mut self) -> Rng {
        Rng(self.next())
    }
}

pub fn env_u64(name: &str, default: u64) -> u64 {
    std::env::var(name)
        .ok()
        .and_then(|s| s.parse().ok())
        .unwrap_or(default)
}

pub fn seed() -> u64 {
    env_u64("VERIF_SEED", 20260925)
}

/// Thorough runs are split over child processes (`HX_NSHARDS` of them, this
/// one being `HX_SHARD`): the share of a workload of `n` items this process takes.
pub fn shard_share(n: u64) -> u64 {
    let k = env_u64("HX_NSHARDS", 1).max(1);
    if k == 1 { n } else { ((n + k - 1) / k).max(1) }
}

pub fn shard_share_usize(n: usize) -> usize {
    shard_share(n as u64) as usize
}

pub fn tier_is_thorough() -> bool {
    std::env::var("VERIF_TIER").map(|t| t == "thorough").unwrap_or(false)
}

// ---- Coq printers ---------------------------------------------------------
pub fn coq_list<T, F: Fn(&T) -> String>(xs: &[T], f: F) -> String {
    let mut s = String::from("[");
    for (i, x) in xs.iter().enumerate() {
        if i > 0 {
            s.push_str("; ");
        }
        s.push_str(&f(x));
    }
    s.push(']');
    s
}
pub fn coq_n(x: u128) -> String {
    format!("{}%N", x)
}
pub fn coq_z(x: i128) -> String {
    if x < 0 {
        format!("({})%Z", x)
    } else {
        format!("{}%Z", x)
    }
}
pub fn coq_nat(x: u64) -> String {
    format!("{}%nat", x)
}
pub fn coq_bool(b: bool) -> String {
    if b { "true".into() } else { "false".into() }
}
pub fn coq_bytes(bs: &[u8]) -> String {
    coq_list(bs, |b| coq_n(*b as u128))
}
pub fn coq_option<T, F: Fn(&T) -> String>(x: &Option<T>, f: F) -> String {
    match x {
        None => "None".into(),
        Some(v) => format!("(Some {})", f(v)),
    }
}

/// A shard of cases to be evaluated by coqc: `header` (Require lines), a
/// `cases` definition and one `Eval vm_compute` of the list of bad indices.
pub struct CaseFile {
    pub dir: PathBuf,
    pub name: String,
    pub header: String,
    /// (Coq type of a case, checker function, rendered cases)
    pub groups: Vec<(String, String, String, Vec<String>)>,
}

impl CaseFile {
    pub fn new(dir: &Path, name: &str, header: &str) -> Self {
        CaseFile {
            dir: dir.to_path_buf(),
            name: name.to_string(),
            header: header.to_string(),
            groups: vec![],
        }
    }
    /// group: label, Coq type, checker (a function case -> bool)
    pub fn group(&mut self, label: &str, ty: &str, checker: &str) -> usize {
        self.groups
            .push((label.to_string(), ty.to_string(), checker.to_string(), vec![]));
        self.groups.len() - 1
    }
    pub fn push(&mut self, g: usize, case: String) -> usize {
        self.groups[g].3.push(case);
        self.groups[g].3.len() - 1
    }
    pub fn write(&self) -> std::io::Result<PathBuf> {
        fs::create_dir_all(&self.dir)?;
        let mut s = String::new();
        writeln!(s, "{}", self.header).unwrap();
        writeln!(s, "From Coq Require Import List NArith ZArith.\nImport ListNotations.").unwrap();
        writeln!(
            s,
            "Fixpoint hx_bad {{A}} (chk : A -> bool) (i : N) (l : list A) : list N :=\n  match l with [] => [] | c :: l' => (if chk c then [] else [i]) ++ hx_bad chk (N.succ i) l' end."
        )
        .unwrap();
        for (label, ty, checker, cases) in &self.groups {
            writeln!(s, "Definition cases_{} : list ({}) := [", label, ty).unwrap();
            for (i, c) in cases.iter().enumerate() {
                writeln!(s, "  {}{}", c, if i + 1 < cases.len() { ";" } else { "" }).unwrap();
            }
            writeln!(s, "].").unwrap();
            writeln!(
                s,
                "Definition bad_{l} := hx_bad ({c}) 0%N cases_{l}.\nEval vm_compute in (\"HXBAD_{l}\"%string, bad_{l}).",
                l = label,
                c = checker
            )
            .unwrap();
        }
        let p = self.dir.join(format!("{}.v", self.name));
        // `String` notations
        let s = format!("From Coq Require Import String.\n{}", s);
        fs::write(&p, s)?;
        Ok(p)
    }
}

pub fn out_dir(prop: &str) -> PathBuf {
    let base = std::env::var("HX_OUT").unwrap_or_else(|_| "/verif/work".to_string());
    let p = PathBuf::from(base).join(prop);
    fs::create_dir_all(&p).unwrap();
    p
}

pub fn scratch_dir(prop: &str) -> PathBuf {
    let p = out_dir(prop).join(format!("scratch-{}", std::process::id()));
    let _ = fs::remove_dir_all(&p);
    fs::create_dir_all(&p).unwrap();
    p
}

pub fn hex(bs: &[u8]) -> String {
    let mut s = String::with_capacity(bs.len() * 2);
    for b in bs {
        write!(s, "{:02x}", b).unwrap();
    }
    s
}
