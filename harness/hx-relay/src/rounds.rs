//! stream 4 "rounds": whole compact block exchanges on the real Relayer.
//!
//! A compact block is delivered through `Relayer::received` (mock protocol
//! context), every GetBlockTransactions the relayer sends is decoded, and an
//! honest peer answers it the way GetBlockTransactionsProcess does (items in
//! the order of the requested indexes, filter_map over out-of-range indexes).
//! Between the events the local availability changes: transactions leave (or
//! enter) the tx-pool, the status / stored block of an uncle disappears (or
//! appears), so that second, third and fourth rounds happen, with new misses
//! below and above the indexes asked before.
//!
//! The property predicate is evaluated here, independently of the Coq model:
//!  (a) every request's `indexes` / `uncle_indexes` are strictly increasing, in
//!      range and exactly (new misses ∪ asked last);
//!  (b) `reconstruct_block`, called with the state's expected indexes and the
//!      honest reply exactly as BlockTransactionsProcess calls it, answers
//!      Missing with exactly the new misses, or Block(b) with b's transactions
//!      and uncles the committed ones in the committed order;
//!  (c) after the exchange the block handed to the chain is the committed one;
//!  (d) nothing panics.
//! Every exchange also becomes a `rounds_case` recomputed by Codec/Rounds.v.
use super::*;
use ckb_network::{
    async_trait, bytes::Bytes as P2pBytes, Behaviour, CKBProtocolContext, CKBProtocolHandler, Error, Peer, PeerIndex, ProtocolId,
    SupportProtocols, TargetSession,
};
use ckb_shared::block_status::BlockStatus;
use ckb_sync::ReconstructionResult as RR;
use std::collections::HashSet;
use std::future::Future;
use std::pin::Pin;
use std::sync::Mutex;
use std::time::Duration;

pub const G_ROUNDS: usize = 4;

// ---------------------------------------------------------------------------
// a protocol context that records what the relayer sends
// ---------------------------------------------------------------------------
#[derive(Default)]
pub struct Ctx {
    sent: Mutex<Vec<Vec<u8>>>,
    bans: Mutex<Vec<String>>,
}
impl Ctx {
    fn push(&self, data: P2pBytes) -> Result<(), Error> {
        self.sent.lock().unwrap_or_else(|e| e.into_inner()).push(data.to_vec());
        Ok(())
    }
}
type Task = Pin<Box<dyn Future<Output = ()> + 'static + Send>>;

#[async_trait]
impl CKBProtocolContext for Ctx {
    async fn set_notify(&self, _interval: Duration, _token: u64) -> Result<(), Error> {
        Ok(())
    }
    async fn remove_notify(&self, _token: u64) -> Result<(), Error> {
        Ok(())
    }
    async fn async_quick_send_message(&self, _p: ProtocolId, _peer: PeerIndex, data: P2pBytes) -> Result<(), Error> {
        self.push(data)
    }
    async fn async_quick_send_message_to(&self, _peer: PeerIndex, data: P2pBytes) -> Result<(), Error> {
        self.push(data)
    }
    async fn async_quick_filter_broadcast(&self, _t: TargetSession, _data: P2pBytes) -> Result<(), Error> {
        Ok(())
    }
    async fn async_future_task(&self, _task: Task, _blocking: bool) -> Result<(), Error> {
        Ok(())
    }
    async fn async_send_message(&self, _p: ProtocolId, _peer: PeerIndex, data: P2pBytes) -> Result<(), Error> {
        self.push(data)
    }
    async fn async_send_message_to(&self, _peer: PeerIndex, data: P2pBytes) -> Result<(), Error> {
        self.push(data)
    }
    async fn async_filter_broadcast(&self, _t: TargetSession, _data: P2pBytes) -> Result<(), Error> {
        Ok(())
    }
    async fn async_filter_broadcast_with_proto(&self, _p: ProtocolId, _t: TargetSession, _data: P2pBytes) -> Result<(), Error> {
        Ok(())
    }
    async fn async_quick_filter_broadcast_with_proto(&self, _p: ProtocolId, _t: TargetSession, _data: P2pBytes) -> Result<(), Error> {
        Ok(())
    }
    async fn async_disconnect(&self, _peer: PeerIndex, _message: &str) -> Result<(), Error> {
        Ok(())
    }
    fn quick_send_message(&self, _p: ProtocolId, _peer: PeerIndex, data: P2pBytes) -> Result<(), Error> {
        self.push(data)
    }
    fn quick_send_message_to(&self, _peer: PeerIndex, data: P2pBytes) -> Result<(), Error> {
        self.push(data)
    }
    fn quick_filter_broadcast(&self, _t: TargetSession, _data: P2pBytes) -> Result<(), Error> {
        Ok(())
    }
    fn quick_filter_broadcast_with_proto(&self, _p: ProtocolId, _t: TargetSession, _data: P2pBytes) -> Result<(), Error> {
        Ok(())
    }
    fn future_task(&self, _task: Task, _blocking: bool) -> Result<(), Error> {
        Ok(())
    }
    fn send_message(&self, _p: ProtocolId, _peer: PeerIndex, data: P2pBytes) -> Result<(), Error> {
        self.push(data)
    }
    fn send_message_to(&self, _peer: PeerIndex, data: P2pBytes) -> Result<(), Error> {
        self.push(data)
    }
    fn filter_broadcast(&self, _t: TargetSession, _data: P2pBytes) -> Result<(), Error> {
        Ok(())
    }
    fn disconnect(&self, _peer: PeerIndex, _message: &str) -> Result<(), Error> {
        Ok(())
    }
    fn get_peer(&self, _peer: PeerIndex) -> Option<Peer> {
        None
    }
    fn with_peer_mut(&self, _peer: PeerIndex, _f: Box<dyn FnOnce(&mut Peer)>) {}
    fn connected_peers(&self) -> Vec<PeerIndex> {
        vec![]
    }
    fn full_relay_connected_peers(&self) -> Vec<PeerIndex> {
        vec![]
    }
    fn report_peer(&self, _peer: PeerIndex, _b: Behaviour) {}
    fn ban_peer(&self, _peer: PeerIndex, _d: Duration, reason: String) {
        self.bans.lock().unwrap_or_else(|e| e.into_inner()).push(reason);
    }
    fn protocol_id(&self) -> ProtocolId {
        SupportProtocols::RelayV3.protocol_id()
    }
}

/// every GetBlockTransactions for `hash` the relayer has sent so far
fn requests_for(ctx: &Ctx, hash: &packed::Byte32) -> Vec<(Vec<u32>, Vec<u32>)> {
    let sent = ctx.sent.lock().unwrap_or_else(|e| e.into_inner());
    sent.iter()
        .filter_map(|d| {
            let m = packed::RelayMessageReader::from_slice(d).ok()?;
            if let packed::RelayMessageUnionReader::GetBlockTransactions(r) = m.to_enum() {
                if r.block_hash().as_slice() == hash.as_slice() {
                    let t: Vec<u32> = r.indexes().iter().map(|x| Unpack::<u32>::unpack(&x)).collect();
                    let u: Vec<u32> = r.uncle_indexes().iter().map(|x| Unpack::<u32>::unpack(&x)).collect();
                    return Some((t, u));
                }
            }
            None
        })
        .collect()
}

// ---------------------------------------------------------------------------
// an exchange: the block, what is prefilled, and what is locally available at
// every event (event 0 = the compact block, event k = the reply to request k)
// ---------------------------------------------------------------------------
#[derive(Clone)]
pub struct Parts {
    /// the block's transactions in the committed order (txs[0] is cellbase-shaped and always prefilled)
    pub txs: Vec<core::TransactionView>,
    pub uncles: Vec<packed::UncleBlock>,
    pub extension: Option<Vec<u8>>,
    /// prefilled positions besides 0
    pub prefilled: Vec<usize>,
    /// per event, per transaction position: the transaction is in the tx-pool (ignored for prefilled positions)
    pub tx_avail: Vec<Vec<bool>>,
    /// per event, per uncle: 0 = found locally (status BLOCK_STORED, block in the store); otherwise not found:
    /// 1 = no status, 2 = HEADER_VALID, 3 = BLOCK_RECEIVED but not in the orphan pool,
    /// 4 = BLOCK_STORED but never written to the store
    pub uncle_state: Vec<Vec<u8>>,
}

impl Parts {
    pub fn to_json(&self) -> Value {
        json!({
            "txs": self.txs.iter().map(|t| hex(t.data().as_slice())).collect::<Vec<_>>(),
            "uncles": self.uncles.iter().map(|u| hex(u.as_slice())).collect::<Vec<_>>(),
            "extension": self.extension.as_ref().map(|e| hex(e)),
            "prefilled": self.prefilled,
            "tx_avail": self.tx_avail,
            "uncle_state": self.uncle_state,
        })
    }
    pub fn from_json(v: &Value) -> Option<Parts> {
        let strs = |k: &str| -> Option<Vec<Vec<u8>>> { Some(v.get(k)?.as_array()?.iter().filter_map(|x| x.as_str().map(unhex)).collect()) };
        let txs = strs("txs")?.into_iter().map(|b| packed::Transaction::from_slice(&b).ok().map(|t| t.into_view())).collect::<Option<Vec<_>>>()?;
        let uncles = strs("uncles")?.into_iter().map(|b| packed::UncleBlock::from_slice(&b).ok()).collect::<Option<Vec<_>>>()?;
        let extension = v.get("extension").and_then(|e| e.as_str()).map(unhex);
        let prefilled = v.get("prefilled")?.as_array()?.iter().filter_map(|x| x.as_u64().map(|n| n as usize)).collect();
        let tx_avail = v.get("tx_avail")?.as_array()?.iter().map(|r| r.as_array().map(|r| r.iter().map(|b| b.as_bool().unwrap_or(false)).collect()).unwrap_or_default()).collect();
        let uncle_state = v.get("uncle_state")?.as_array()?.iter().map(|r| r.as_array().map(|r| r.iter().map(|b| b.as_u64().unwrap_or(1) as u8).collect()).unwrap_or_default()).collect();
        Some(Parts { txs, uncles, extension, prefilled, tx_avail, uncle_state })
    }
}

/// genesis stamped "now", so that the node is not in initial block download and
/// `Relayer::received` processes relay messages; up to 3 uncles per block
pub fn live_consensus() -> ckb_chain_spec::consensus::Consensus {
    use ckb_chain_spec::consensus::ConsensusBuilder;
    let g = ConsensusBuilder::default().build().genesis_block().clone();
    let g = g.as_advanced_builder().timestamp(ckb_systemtime::unix_time_as_millis()).build();
    let mut c = ConsensusBuilder::default().genesis_block(g).build();
    c.max_uncles_num = 3;
    c
}

fn cellbase_shaped(serial: u64) -> core::TransactionView {
    core::TransactionBuilder::default()
        .input(packed::CellInput::new_cellbase_input(1))
        .output(packed::CellOutput::new_builder().capacity(core::Capacity::shannons(serial).pack()).build())
        .output_data(ckb_types::bytes::Bytes::new().pack())
        .witness(packed::Script::default().into_witness())
        .build()
}

/// the full block on top of the node's genesis; `into_view` computes the header
/// commitments from the body, so header and body are consistent
fn build_block(node: &node::Node, p: &Parts, serial: u64, nonce: u128) -> core::BlockView {
    let consensus = node.shared.consensus();
    let genesis = consensus.genesis_block().header();
    let epoch = consensus.genesis_epoch_ext();
    let header = core::HeaderBuilder::default()
        .parent_hash(genesis.hash())
        .number(1u64)
        .epoch(epoch.number_with_fraction(1))
        .timestamp(genesis.timestamp() + 1 + serial % 3000)
        .compact_target(epoch.compact_target())
        .nonce(nonce)
        .build();
    let txs: Vec<packed::Transaction> = p.txs.iter().map(|t| t.data()).collect();
    match &p.extension {
        Some(ext) => packed::BlockV1::new_builder()
            .header(header.data())
            .uncles(p.uncles.clone().pack())
            .transactions(txs.pack())
            .extension(ext[..].pack())
            .build()
            .as_v0()
            .into_view(),
        None => packed::Block::new_builder().header(header.data()).uncles(p.uncles.clone().pack()).transactions(txs.pack()).build().into_view(),
    }
}

/// what GetBlockTransactionsProcess sends for a request
fn honest_reply(full: &core::BlockView, indexes: &[u32], uncle_indexes: &[u32]) -> (Vec<core::TransactionView>, Vec<core::UncleBlockView>) {
    let txs = indexes.iter().filter_map(|i| full.transactions().get(*i as usize).cloned()).collect();
    let uncles = uncle_indexes.iter().filter_map(|i| full.uncles().get(*i as usize)).collect();
    (txs, uncles)
}

fn strictly_increasing(l: &[u32]) -> bool {
    l.windows(2).all(|w| w[0] < w[1])
}
fn union_sorted(a: &[u32], b: &[u32]) -> Vec<u32> {
    let s: BTreeSet<u32> = a.iter().chain(b.iter()).copied().collect();
    s.into_iter().collect()
}

pub const SIG_TWO_PEERS: &str = "C16-second-peer-indexes-against-first-peer-compact-block";

pub struct ExResult {
    pub violations: Vec<(String, Value)>,
    /// Coq case text, None when the exchange could not be started
    pub coq: Option<String>,
    pub desc: Value,
    pub rounds: usize,
    pub completed: bool,
    pub unsorted_concat_would_differ: bool,
    pub log: Vec<String>,
}

/// one whole exchange on the real relayer
pub fn run_exchange(node: &mut node::Node, rt: &tokio::runtime::Runtime, p: &Parts, serial: u64, nonce: u128) -> ExResult {
    let mut viol: Vec<(String, Value)> = vec![];
    let mut log: Vec<String> = vec![];
    let full = build_block(node, p, serial, nonce);
    let n = p.txs.len();
    let nu = p.uncles.len();
    let mut pre: HashSet<usize> = p.prefilled.iter().copied().collect();
    pre.insert(0);
    let compact = packed::CompactBlock::build_from_block(&full, &pre);
    let hash = full.hash();
    let peer = PeerIndex::new(serial as usize + 1);
    let ctx = Arc::new(Ctx::default());
    let nc: Arc<dyn CKBProtocolContext + Sync> = ctx.clone();
    let committed_tx: Vec<packed::Byte32> = full.transactions().iter().map(|t| t.hash()).collect();
    let committed_un: Vec<packed::Byte32> = full.uncle_hashes().into_iter().collect();
    let base = json!({"stream": "rounds", "exchange": p.to_json(), "compact_block": hex(compact.as_slice()), "block_hash": format!("{:x}", hash)});
    let short_pos: Vec<usize> = (0..n).filter(|i| !pre.contains(i)).collect();
    let uncle_blocks: Vec<core::BlockView> = p
        .uncles
        .iter()
        .map(|u| packed::Block::new_builder().header(u.header()).proposals(u.proposals()).build().into_view_without_reset_header())
        .collect();

    let mut in_pool: Vec<bool> = vec![false; n];
    let mut in_store: Vec<bool> = vec![false; nu];
    let mut reqs: Vec<(Vec<u32>, Vec<u32>)> = vec![];
    let mut events_coq: Vec<String> = vec![];
    let mut final_uncles: Option<Vec<u64>> = None;
    let mut completed = false;
    let mut unsorted_differs = false;
    let state_of = |node: &node::Node| -> Option<(Vec<u32>, Vec<u32>)> {
        rt.block_on(async { node.relayer.shared().state().pending_compact_blocks().await.get(&hash).and_then(|e| e.1.get(&peer).cloned()) })
    };

    let events = p.tx_avail.len().min(p.uncle_state.len());
    'ev: for k in 0..events {
        // ---- local availability of this event
        let pool = node.shared.tx_pool_controller();
        for &i in short_pos.iter() {
            let want = p.tx_avail[k].get(i).copied().unwrap_or(false);
            if want && !in_pool[i] {
                let e = ckb_tx_pool::TxEntry::dummy_resolve(p.txs[i].clone(), 0, core::Capacity::shannons(0), 0);
                pool.plug_entry(vec![e], ckb_tx_pool::PlugTarget::Pending).unwrap();
                in_pool[i] = true;
            } else if !want && in_pool[i] {
                let _ = pool.remove_local_tx(p.txs[i].hash());
                in_pool[i] = false;
            }
        }
        for j in 0..nu {
            let h = uncle_blocks[j].hash();
            match p.uncle_state[k].get(j).copied().unwrap_or(1) {
                0 => {
                    if !in_store[j] {
                        let txn = node.shared.store().begin_transaction();
                        txn.insert_block(&uncle_blocks[j]).unwrap();
                        txn.commit().unwrap();
                        in_store[j] = true;
                    }
                    node.shared.insert_block_status(h, BlockStatus::BLOCK_STORED);
                }
                2 => node.shared.insert_block_status(h, BlockStatus::HEADER_VALID),
                3 => node.shared.insert_block_status(h, BlockStatus::BLOCK_RECEIVED),
                4 if !in_store[j] => node.shared.insert_block_status(h, BlockStatus::BLOCK_STORED),
                _ => node.shared.remove_block_status(&h),
            }
        }
        let unavail_t: Vec<u32> = short_pos.iter().filter(|i| !in_pool[**i]).map(|i| *i as u32).collect();
        let avail_u: Vec<bool> = (0..nu).map(|j| p.uncle_state[k].get(j).copied().unwrap_or(1) == 0).collect();
        let unavail_u: Vec<u32> = (0..nu).filter(|j| !avail_u[*j]).map(|j| j as u32).collect();
        events_coq.push(format!("({}, {})", coq_list(&unavail_t, |x| coq_nat(*x as u64)), coq_list(&avail_u, |b| coq_bool(*b))));
        let prev = reqs.last().cloned().unwrap_or_default();
        let new_t: Vec<u32> = unavail_t.iter().filter(|i| !prev.0.contains(i)).copied().collect();
        let new_u: Vec<u32> = unavail_u.iter().filter(|i| !prev.1.contains(i)).copied().collect();
        let expect_done = new_t.is_empty() && new_u.is_empty();
        let mut concat_t = new_t.clone();
        concat_t.extend(prev.0.iter());
        let mut concat_u = new_u.clone();
        concat_u.extend(prev.1.iter());
        if k > 0 && !expect_done && (!strictly_increasing(&concat_t) || !strictly_increasing(&concat_u)) {
            unsorted_differs = true;
        }
        let at = |what: &str| format!("event {k} ({}): {what}", if k == 0 { "compact block".to_string() } else { format!("reply to request {k}") });
        let ctxj = |extra: Value| {
            let mut d = base.clone();
            d["event"] = json!(k);
            d["requests_so_far"] = json!(reqs);
            d["unavailable_transaction_positions"] = json!(unavail_t);
            d["unavailable_uncles"] = json!(unavail_u);
            d["info"] = extra;
            d
        };

        // ---- the message of this event, and (b): reconstruct_block as the process calls it
        let (reply_txs, reply_uncles, expected_u): (Vec<core::TransactionView>, Vec<core::UncleBlockView>, Vec<u32>) = if k == 0 {
            (vec![], vec![], vec![])
        } else {
            let st = match state_of(node) {
                Some(st) => st,
                None => {
                    viol.push((at("the pending compact block state of the peer is gone although the last request is unanswered"), ctxj(json!(null))));
                    break 'ev;
                }
            };
            if st != prev {
                viol.push((at("the expected indexes kept for the peer differ from the request that was sent"), ctxj(json!({"state": st}))));
            }
            let (t, u) = honest_reply(&full, &prev.0, &prev.1);
            (t, u, st.1)
        };
        let active = node.relayer.shared().active_chain();
        let direct = silent(|| rt.block_on(node.relayer.reconstruct_block(&active, &compact, reply_txs.clone(), &expected_u, &reply_uncles)));
        let mut block_uncles: Option<Vec<u64>> = None;
        match &direct {
            Err(pn) => viol.push((at(&format!("reconstruct_block panicked on the honest reply: {pn}")), ctxj(json!(null)))),
            Ok(RR::Block(b)) => {
                let got_tx: Vec<packed::Byte32> = b.transactions().iter().map(|t| t.hash()).collect();
                let got_un: Vec<packed::Byte32> = b.uncle_hashes().into_iter().collect();
                let ids: Vec<u64> = got_un.iter().map(|h| committed_un.iter().position(|c| c == h).map(|x| x as u64 + 1).unwrap_or(9999)).collect();
                if got_tx != committed_tx {
                    viol.push((at("reconstruct_block returned Block(b) whose transactions are not the committed ones in the committed order"), ctxj(json!({"got": got_tx.iter().map(|h| format!("{:x}", h)).collect::<Vec<_>>()}))));
                }
                if got_un != committed_un {
                    viol.push((
                        at("reconstruct_block returned Block(b) whose uncles are not the committed ones in the committed order: a block different from the one the header commits to"),
                        ctxj(json!({"uncle_order_got (1-based committed positions)": ids, "expected_uncle_indexes": expected_u, "returned_hash": format!("{:x}", b.hash())})),
                    ));
                } else if got_tx == committed_tx && b.hash() != hash {
                    viol.push((at("reconstruct_block returned Block(b) with the committed transactions and uncles but another hash"), ctxj(json!({"returned_hash": format!("{:x}", b.hash())}))));
                }
                if !expect_done {
                    viol.push((at("reconstruct_block returned Block although something is not available locally nor in the reply"), ctxj(json!({"new_missing_transactions": new_t, "new_missing_uncles": new_u}))));
                }
                block_uncles = Some(ids);
            }
            Ok(RR::Missing(is, us)) => {
                let is: Vec<u32> = is.iter().map(|x| *x as u32).collect();
                let us: Vec<u32> = us.iter().map(|x| *x as u32).collect();
                if is != new_t || us != new_u {
                    viol.push((at("Missing(..) is not exactly what is neither available locally nor in the reply"), ctxj(json!({"got": [is, us], "expected": [new_t, new_u]}))));
                }
            }
            Ok(other) => viol.push((at(&format!("an honest exchange on a consistent block ends in {:?}", other)), ctxj(json!(null)))),
        }

        // ---- deliver through Relayer::received
        let msg = if k == 0 {
            packed::RelayMessage::new_builder().set(compact.clone()).build()
        } else {
            let bt = packed::BlockTransactions::new_builder()
                .block_hash(hash.clone())
                .transactions(reply_txs.iter().map(|t| t.data()).collect::<Vec<_>>().pack())
                .uncles(reply_uncles.iter().map(|u| u.data()).collect::<Vec<_>>().pack())
                .build();
            packed::RelayMessage::new_builder().set(bt).build()
        };
        let before = requests_for(&ctx, &hash).len();
        let data = P2pBytes::from(msg.as_slice().to_vec());
        if let Err(pn) = silent(|| rt.block_on(node.relayer.received(nc.clone(), peer, data))) {
            viol.push((at(&format!("Relayer::received panicked: {pn}")), ctxj(json!(null))));
            break 'ev;
        }
        // the first request is sent from a spawned task
        if !expect_done {
            for _ in 0..5000 {
                if requests_for(&ctx, &hash).len() > before {
                    break;
                }
                std::thread::sleep(Duration::from_millis(1));
            }
        }
        let all = requests_for(&ctx, &hash);
        let new_reqs: Vec<(Vec<u32>, Vec<u32>)> = all[before.min(all.len())..].to_vec();
        let pending_now = state_of(node);
        let bans = ctx.bans.lock().unwrap_or_else(|e| e.into_inner()).clone();
        log.push(format!("event {k}: unavailable txs {:?} uncles {:?}; direct reconstruct {}; new requests {:?}; pending {:?}", unavail_t, unavail_u,
            match &direct { Ok(RR::Block(_)) => "Block".to_string(), Ok(o) => format!("{:?}", o), Err(e) => format!("panic {e}") }, new_reqs, pending_now));
        if expect_done {
            if !new_reqs.is_empty() {
                viol.push((at("the relayer asks again although everything is available"), ctxj(json!({"requests": new_reqs}))));
            }
            if pending_now.is_some() {
                viol.push((at("everything is available but the exchange is not completed (the honest reply was not accepted)"), ctxj(json!({"bans": bans}))));
                break 'ev;
            }
            // (c) what was handed to the chain: accept_remote_block marks the block's own hash
            let st = active.get_block_status(&hash);
            if st == BlockStatus::UNKNOWN || st == BlockStatus::HEADER_VALID {
                viol.push((
                    at("the exchange completed but the committed block was not handed to the chain: the block the relayer accepted has another hash"),
                    ctxj(json!({"status_of_committed_hash": format!("{:?}", st), "uncle_order_of_reconstructed_block": block_uncles})),
                ));
            }
            final_uncles = block_uncles;
            completed = true;
            break 'ev;
        }
        if new_reqs.len() != 1 {
            viol.push((at(&format!("something is missing but the relayer sent {} GetBlockTransactions", new_reqs.len())), ctxj(json!({"requests": new_reqs, "bans": bans, "pending": pending_now}))));
            if new_reqs.is_empty() {
                break 'ev;
            }
        }
        let rq = new_reqs[0].clone();
        // (a)
        let want_t = union_sorted(&new_t, &prev.0);
        let want_u = union_sorted(&new_u, &prev.1);
        if !strictly_increasing(&rq.0) || !strictly_increasing(&rq.1) {
            viol.push((at("a GetBlockTransactions request is not strictly increasing (the honest peer answers in request order, reconstruct_block consumes in compact order)"), ctxj(json!({"request": rq}))));
        }
        if rq.0.iter().any(|i| *i as usize >= n) || rq.1.iter().any(|i| *i as usize >= nu) {
            viol.push((at("a GetBlockTransactions request carries an index out of range"), ctxj(json!({"request": rq}))));
        }
        if union_sorted(&rq.0, &[]) != want_t || union_sorted(&rq.1, &[]) != want_u || rq.0.len() != want_t.len() || rq.1.len() != want_u.len() {
            viol.push((at("a GetBlockTransactions request is not exactly (new misses + indexes asked last)"), ctxj(json!({"request": rq, "expected": [want_t, want_u]}))));
        }
        reqs.push(rq);
    }

    // ---- leave the node as it was
    let pool = node.shared.tx_pool_controller();
    for i in 0..n {
        if in_pool[i] {
            let _ = pool.remove_local_tx(p.txs[i].hash());
        }
    }
    for b in uncle_blocks.iter() {
        node.shared.remove_block_status(&b.hash());
    }
    if !completed {
        let hash2 = hash.clone();
        rt.block_on(async { node.relayer.shared().state().pending_compact_blocks().await.remove(&hash2) });
    }

    let full_ids: Vec<u64> = (1..=nu as u64).collect();
    let coq = format!(
        "mkRounds {} {} {} {}",
        coq_list(&full_ids, |x| coq_n(*x as u128)),
        coq_list(&events_coq, |s| s.clone()),
        coq_list(&reqs, |(t, u)| format!("({}, {})", coq_list(t, |x| coq_nat(*x as u64)), coq_list(u, |x| coq_nat(*x as u64)))),
        coq_option(&final_uncles, |us| coq_list(us, |x| coq_n(*x as u128)))
    );
    let mut desc = base.clone();
    desc["requests"] = json!(reqs);
    desc["final_uncle_order"] = json!(final_uncles);
    desc["completed"] = json!(completed);
    ExResult { violations: viol, coq: Some(coq), desc, rounds: reqs.len(), completed, unsorted_concat_would_differ: unsorted_differs, log }
}

// ---------------------------------------------------------------------------
// generator
// ---------------------------------------------------------------------------
fn gen_parts(rng: &mut Rng, g: &mut Gen, serial: &mut u64, ci: usize) -> Parts {
    let n = rng.range(2, 8) as usize;
    *serial += 1;
    let mut txs = vec![cellbase_shaped(*serial)];
    for _ in 1..n {
        txs.push(fresh_tx(rng, serial));
    }
    let nu = match rng.below(20) {
        0..=2 => 0,
        3..=5 => 1,
        6..=12 => 2,
        _ => 3,
    } as usize;
    let mut uncles = vec![];
    for _ in 0..nu {
        g.reset(4);
        let h = gen_schema::gen_Header(g);
        // distinct hashes; no proposals, so that the exchange asks for nothing else
        let raw = h.raw().as_builder().timestamp(Pack::<packed::Uint64>::pack(&rng.next())).build();
        uncles.push(packed::UncleBlock::new_builder().header(h.as_builder().raw(raw).build()).build());
    }
    let extension = if rng.chance(1, 5) { Some((0..rng.range(1, 40)).map(|_| rng.below(256) as u8).collect()) } else { None };
    let prefilled: Vec<usize> = (1..n).filter(|_| rng.chance(1, 4)).collect();
    let short: Vec<usize> = (1..n).filter(|i| !prefilled.contains(i)).collect();
    let planned = match if ci < 4 { 10 + ci as u64 } else { rng.below(20) } {
        0 => 1,
        1..=4 => 2,
        5..=13 => 3,
        _ => 4,
    };
    let mut asked_t: BTreeSet<usize> = BTreeSet::new();
    let mut asked_u: BTreeSet<usize> = BTreeSet::new();
    let mut tx_avail: Vec<Vec<bool>> = vec![];
    let mut uncle_state: Vec<Vec<u8>> = vec![];
    let mut ever_stored = vec![false; nu];
    for k in 0..planned {
        let last = k + 1 == planned;
        let mut ta = vec![false; n];
        let mut us = vec![1u8; nu];
        let mut fresh: Vec<(bool, usize)> = vec![];
        for &i in short.iter() {
            ta[i] = if asked_t.contains(&i) { rng.chance(1, 5) } else if last { true } else { rng.chance(3, 5) };
            if !asked_t.contains(&i) {
                fresh.push((true, i));
            }
        }
        for j in 0..nu {
            let avail = if asked_u.contains(&j) { rng.chance(1, 5) } else if last { true } else { rng.chance(1, 2) };
            us[j] = if avail { 0 } else { 1 };
            if !asked_u.contains(&j) {
                fresh.push((false, j));
            }
        }
        if !last {
            let any_new = short.iter().any(|i| !asked_t.contains(i) && !ta[*i]) || (0..nu).any(|j| !asked_u.contains(&j) && us[j] != 0);
            if !any_new && !fresh.is_empty() {
                // prefer an uncle, above or below what was asked before
                let unc: Vec<(bool, usize)> = fresh.iter().filter(|f| !f.0).copied().collect();
                let (is_tx, x) = if !unc.is_empty() && rng.chance(2, 3) { *rng.pick(&unc) } else { *rng.pick(&fresh) };
                if is_tx {
                    ta[x] = false;
                } else {
                    us[x] = 1;
                }
            }
        }
        for j in 0..nu {
            if us[j] == 0 {
                ever_stored[j] = true;
            } else {
                us[j] = match rng.below(4) {
                    0 => 1,
                    1 => 2,
                    2 => 3,
                    _ => if ever_stored[j] { 1 } else { 4 },
                };
            }
        }
        for &i in short.iter() {
            if !ta[i] {
                asked_t.insert(i);
            }
        }
        for j in 0..nu {
            if us[j] != 0 {
                asked_u.insert(j);
            }
        }
        tx_avail.push(ta);
        uncle_state.push(us);
    }
    // a spare event in which everything is there, should the relayer still be asking
    tx_avail.push(vec![true; n]);
    uncle_state.push(vec![0u8; nu]);
    Parts { txs, uncles, extension, prefilled, tx_avail, uncle_state }
}

/// the history of the demo: two uncles, uncle 1 found locally when the compact
/// block arrives and gone before the first reply is processed
fn aimed_parts(rng: &mut Rng, g: &mut Gen, serial: &mut u64, variant: usize) -> Parts {
    let mut p = gen_parts(rng, g, serial, 100);
    while p.uncles.len() < 2 + variant % 2 {
        g.reset(4);
        let h = gen_schema::gen_Header(g);
        let raw = h.raw().as_builder().timestamp(Pack::<packed::Uint64>::pack(&rng.next())).build();
        p.uncles.push(packed::UncleBlock::new_builder().header(h.as_builder().raw(raw).build()).build());
    }
    let n = p.txs.len();
    let nu = p.uncles.len();
    p.prefilled = vec![];
    let all = vec![true; n];
    let mut first = all.clone();
    first[n - 1] = false;
    p.tx_avail = vec![first, all.clone(), all.clone(), all];
    let gone = [1u8, 2, 3, 1][variant % 4];
    let mut s0 = vec![0u8; nu];
    s0[0] = if variant % 3 == 0 { 4 } else { 1 };
    let mut s1 = s0.clone();
    s1[nu - 1] = gone;
    p.uncle_state = vec![s0, s1.clone(), s1, vec![0u8; nu]];
    p
}

/// Two peers announce the same header with different compact blocks (the header commits to the
/// transactions, but a compact block's short ids are only checked against it when the block is
/// reconstructed): the second peer's compact block lists MORE transactions than the first one's.  Whatever
/// the relayer keeps and asks for, no message of either peer may make `Relayer::received` panic.
pub fn two_peer_probe(node: &mut node::Node, rt: &tokio::runtime::Runtime, rng: &mut Rng, serial: u64) -> Vec<(String, Value)> {
    let mut viol = vec![];
    let mk_tx = |k: u64| -> core::TransactionView {
        let mut h = [0u8; 32];
        h[..8].copy_from_slice(&(serial * 1000 + k).to_le_bytes());
        h[31] = 0x2b;
        core::TransactionBuilder::default()
            .input(packed::CellInput::new(packed::OutPoint::new(h.pack(), 0), 0))
            .output(packed::CellOutput::new_builder().capacity(core::Capacity::shannons(1000 + k).pack()).build())
            .output_data(ckb_types::bytes::Bytes::new().pack())
            .build()
    };
    // variants 2, 3: the second peer's body is MALFORMED (what CompactBlockVerifier refuses): it must be refused although a
    // compact block for this header is already pending
    let variant = serial % 4;
    let n1 = if variant >= 2 { 3 + rng.below(2) } else { 1 + rng.below(3) };
    let extra = 1 + rng.below(4);
    let txs: Vec<core::TransactionView> = std::iter::once(cellbase_shaped(900_000 + serial)).chain((0..n1).map(|k| mk_tx(k))).collect();
    let parts = Parts { txs: txs.clone(), uncles: vec![], extension: None, prefilled: vec![], tx_avail: vec![], uncle_state: vec![] };
    let full = build_block(node, &parts, 700_000 + serial, 0x2bee_0000 + serial as u128);
    let pre: HashSet<usize> = [0usize].into_iter().collect();
    let cb1 = packed::CompactBlock::build_from_block(&full, &pre);
    // the same header, more short ids
    let mut ids: Vec<packed::ProposalShortId> = cb1.short_ids().into_iter().collect();
    for k in 0..extra { ids.push(mk_tx(500 + k).proposal_short_id()); }
    let it = |ix: u32, t: &core::TransactionView| packed::IndexTransaction::new_builder().index(Pack::<packed::Uint32>::pack(&ix)).transaction(t.data()).build();
    let cb2 = match variant {
        2 => {
            // prefilled indexes 0, 2, 1: not strictly increasing
            let rest: Vec<packed::ProposalShortId> = txs[3..].iter().map(|t| t.proposal_short_id()).collect();
            cb1.clone().as_builder().prefilled_transactions(vec![it(0, &txs[0]), it(2, &txs[2]), it(1, &txs[1])].pack()).short_ids(rest.pack()).build()
        }
        3 => {
            // a prefilled index beyond the block, or the same short id twice
            if rng.chance(1, 2) {
                let rest: Vec<packed::ProposalShortId> = txs[2..].iter().map(|t| t.proposal_short_id()).collect();
                cb1.clone().as_builder().prefilled_transactions(vec![it(0, &txs[0]), it(txs.len() as u32 + 3, &txs[1])].pack()).short_ids(rest.pack()).build()
            } else {
                let mut dup: Vec<packed::ProposalShortId> = cb1.short_ids().into_iter().collect();
                let d = dup[0].clone();
                dup.push(d);
                cb1.clone().as_builder().short_ids(dup.pack()).build()
            }
        }
        _ => cb1.clone().as_builder().short_ids(ids.pack()).build(),
    };
    if variant >= 2 && ckb_sync::verif_compact_block_verify(&cb2).is_ok() {
        viol.push(("the harness built a malformed compact block that CompactBlockVerifier accepts".into(), json!({"compact_block": hex(cb2.as_slice())})));
    }
    let hash = full.hash();
    let (pa, pb) = (PeerIndex::new(800_000 + serial as usize * 2), PeerIndex::new(800_001 + serial as usize * 2));
    let (ctx_a, ctx_b) = (Arc::new(Ctx::default()), Arc::new(Ctx::default()));
    let detail = json!({"stream": "two-peers", "serial": serial, "first_compact_block": hex(cb1.as_slice()), "second_compact_block": hex(cb2.as_slice()),
                        "transactions_first": txs.len(), "transactions_second": txs.len() as u64 + extra});
    let mut deliver = |peer: PeerIndex, ctx: &Arc<Ctx>, msg: packed::RelayMessage, what: &str, viol: &mut Vec<(String, Value)>| -> bool {
        let nc: Arc<dyn CKBProtocolContext + Sync> = ctx.clone();
        let data = P2pBytes::from(msg.as_slice().to_vec());
        match silent(|| rt.block_on(node.relayer.received(nc, peer, data))) {
            Ok(_) => true,
            Err(pn) => { viol.push((format!("Relayer::received panicked on {what}: {pn}"), detail.clone())); false }
        }
    };
    let wait_req = |ctx: &Arc<Ctx>| -> Option<(Vec<u32>, Vec<u32>)> {
        for _ in 0..3000 { if let Some(r) = requests_for(ctx, &hash).last().cloned() { return Some(r); } std::thread::sleep(Duration::from_millis(1)); }
        None
    };
    if !deliver(pa, &ctx_a, packed::RelayMessage::new_builder().set(cb1.clone()).build(), "the first peer's compact block", &mut viol) { return viol; }
    let _ = wait_req(&ctx_a);
    if !deliver(pb, &ctx_b, packed::RelayMessage::new_builder().set(cb2.clone()).build(), "the second peer's compact block (same header, more short ids)", &mut viol) { return viol; }
    let req_b = if variant >= 2 {
        // nothing may be asked of the second peer, and the pending block is still the first peer's
        std::thread::sleep(Duration::from_millis(30));
        if let Some(r) = requests_for(&ctx_b, &hash).last().cloned() {
            viol.push((format!("a malformed compact block for an already pending header was not refused: the relayer asked its sender for {:?}", r), detail.clone()));
        }
        None
    } else { wait_req(&ctx_b) };
    // the second peer answers its request with as many transactions as it was asked for
    if let Some((idx, _)) = req_b {
        let reply: Vec<packed::Transaction> = idx.iter().map(|i| if (*i as usize) < txs.len() { txs[*i as usize].data() } else { mk_tx(500 + (*i as u64 - txs.len() as u64)).data() }).collect();
        let bt = packed::BlockTransactions::new_builder().block_hash(hash.clone()).transactions(reply.pack()).build();
        let _ = deliver(pb, &ctx_b, packed::RelayMessage::new_builder().set(bt).build(), &format!("the second peer's BlockTransactions reply to the request for {:?}", idx), &mut viol);
    }
    // and the first peer completes its own exchange honestly
    if let Some((idx, un)) = requests_for(&ctx_a, &hash).last().cloned() {
        let (t, u) = honest_reply(&full, &idx, &un);
        let bt = packed::BlockTransactions::new_builder().block_hash(hash.clone())
            .transactions(t.iter().map(|x| x.data()).collect::<Vec<_>>().pack()).uncles(u.iter().map(|x| x.data()).collect::<Vec<_>>().pack()).build();
        let _ = deliver(pa, &ctx_a, packed::RelayMessage::new_builder().set(bt).build(), "the first peer's honest BlockTransactions reply", &mut viol);
    }
    viol
}

pub fn stream_rounds(rng: &mut Rng, out: &mut Out, thorough: bool) {
    let mut node = match silent(|| node::start_with(live_consensus())) {
        Ok(n) => n,
        Err(p) => {
            out.violation(&format!("could not start the temp-db node for the rounds stream: {p}"), json!(null), None);
            return;
        }
    };
    let rt = tokio::runtime::Builder::new_current_thread().enable_all().build().unwrap();
    let n_cases = shard_share_usize(if thorough { 6000 } else { 500 });
    let mut serial = 0u64;
    let mut g = Gen::new(rng.fork());
    // two peers, one header, different compact blocks
    for k in 0..(if thorough { 60 } else { 12 }) {
        for (what, detail) in two_peer_probe(&mut node, &rt, rng, k as u64) {
            out.violation(&what, detail, None);
        }
        out.evaluations += 1;
        out.count("two_peer_probes");
    }
    for ci in 0..n_cases {
        let p = if ci < 8 { aimed_parts(rng, &mut g, &mut serial, ci) } else { gen_parts(rng, &mut g, &mut serial, ci) };
        let nonce = ((rng.next() as u128) << 64) | rng.next() as u128;
        let r = run_exchange(&mut node, &rt, &p, ci as u64, nonce);
        out.evaluations += 1;
        out.count("rounds_exchanges");
        out.count(&format!("rounds_requests_{}", r.rounds));
        out.count(&format!("rounds_uncles_{}", p.uncles.len()));
        if r.completed {
            out.count("rounds_completed");
        }
        if r.unsorted_concat_would_differ {
            out.count("rounds_where_misses_concat_asked_is_unsorted");
        }
        let mut d = r.desc.clone();
        d["seed_replay"] = json!({"serial": ci, "nonce": format!("{:x}", nonce)});
        for (what, detail) in r.violations.iter() {
            out.violation(what, detail.clone(), None);
        }
        if let Some(c) = r.coq {
            let sh = ci % SHARDS;
            out.files[sh].push(G_ROUNDS, c);
            out.descs[sh].entry("rounds".into()).or_default().push(d);
        }
        if out.samples.len() < 4 && ci == 9 {
            out.samples.push(json!({"stream": "rounds", "txs": p.txs.len(), "uncles": p.uncles.len(), "log": r.log}));
        }
    }
    drop(node);
}

pub fn replay_rounds(detail: &Value) -> bool {
    let Some(p) = detail.get("exchange").and_then(Parts::from_json) else {
        println!("the recorded exchange cannot be decoded");
        return true;
    };
    let mut node = node::start_with(live_consensus());
    let rt = tokio::runtime::Builder::new_current_thread().enable_all().build().unwrap();
    let r = run_exchange(&mut node, &rt, &p, 0, 0x5eed);
    println!("replaying an exchange with {} transactions, {} uncles, prefilled {:?}", p.txs.len(), p.uncles.len(), p.prefilled);
    for l in r.log.iter() {
        println!("  {l}");
    }
    for (what, d) in r.violations.iter() {
        println!("VIOLATED: {what}\n    {}", d.get("info").cloned().unwrap_or(Value::Null));
    }
    if r.violations.is_empty() {
        println!("the exchange completes with the committed block: {}", r.completed);
    }
    !r.violations.is_empty()
}
