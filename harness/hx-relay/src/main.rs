//! C16 harness: bytes from peers.
//!
//! stream 1  malformed-dominant byte strings for every protocol message type:
//!           after a successful from_compatible_slice EVERY generated accessor
//!           is called (the walker is generated from the schema by mol2v), then
//!           — behind the same gates the node applies in Synchronizer::received
//!           / Relayer::received — view conversions, hashes, serialized sizes,
//!           BlockVerifier, NonContextualTransactionVerifier,
//!           CompactBlockVerifier; all under catch_unwind. The verdicts also go
//!           to the Coq decoder (`check_mol`).
//! stream 2  compress / decompress on valid and adversarial frames, guard logic
//!           compared with Codec/Compact.v (`check_frame`).
//! stream 3  the real Relayer::reconstruct_block on a temp-db node with a real
//!           tx-pool, compared with the model (`check_recon`) and with the
//!           property text.
//! stream 4  whole compact block exchanges on the real Relayer (rounds.rs):
//!           CompactBlock and honest BlockTransactions replies delivered
//!           through `Relayer::received`, local availability changing between
//!           the rounds, every GetBlockTransactions decoded; compared with
//!           Codec/Rounds.v (`check_rounds`) and with the property text.
#[path = "../../hx-codec/src/gen.rs"]
mod gen;
#[path = "../../hx-codec/src/gen_schema.rs"]
mod gen_schema;
mod rounds;

use ckb_types::{core, packed, prelude::*};
use ckb_verification_traits::Verifier;
use gen::*;
use gen_schema::{TypeEntry, TYPES};
use hx_common::*;
use serde_json::{json, Value};
use std::collections::{BTreeMap, BTreeSet, HashMap};
use std::fs;
use std::panic::{catch_unwind, AssertUnwindSafe};
use std::sync::Arc;

const SHARDS: usize = 16;
const SIG_EMPTY_TABLE: &str = "molecule-empty-table-header-accessors-panic";
const SIG_EXTENSION: &str = "block-extension-unwrap-panic";
const SIG_REWRITE: &str = "reconstruct-block-rewrites-header";

struct Out {
    viol: Vec<Value>,
    viol_sigs: BTreeMap<String, u64>,
    stats: BTreeMap<String, u64>,
    files: Vec<CaseFile>,
    descs: Vec<BTreeMap<String, Vec<Value>>>,
    shard_payload: Vec<usize>,
    payload_cap: usize,
    next_shard: usize,
    evaluations: u64,
    distinct: BTreeSet<[u8; 8]>,
    samples: Vec<Value>,
}
impl Out {
    fn count(&mut self, k: &str) {
        *self.stats.entry(k.to_string()).or_default() += 1;
    }
    fn violation(&mut self, what: &str, detail: Value, sig: Option<&str>) {
        let key = sig.unwrap_or("").to_string();
        let n = self.viol_sigs.entry(key).or_default();
        *n += 1;
        // keep at most a few per signature, 150 unsigned
        if (sig.is_some() && *n <= 3) || (sig.is_none() && *n <= 150) {
            let mut v = json!({"what": what, "detail": detail});
            if let Some(s) = sig {
                v["signature"] = json!(s);
            }
            self.viol.push(v);
        }
        self.count("impl_violations_total");
    }
    fn push_mol(&mut self, ty: &str, bytes: &[u8], v: &Verdict, desc: Value) -> bool {
        let rebuilt_len = match &v.rebuilt {
            Some(r) if r != bytes => r.len(),
            _ => 0,
        };
        let cost = bytes.len() + rebuilt_len + 40;
        for _ in 0..SHARDS {
            let sh = self.next_shard;
            self.next_shard = (self.next_shard + 1) % SHARDS;
            if self.shard_payload[sh] + cost <= self.payload_cap {
                self.shard_payload[sh] += cost;
                let rb = match &v.rebuilt {
                    None => "RNone".to_string(),
                    Some(r) if r == bytes => "RSame".to_string(),
                    Some(r) => format!("(RBytes (hx \"{}\"))", hex(r)),
                };
                self.files[sh].push(0, format!("mkMol T_{} (hx \"{}\") {} {} {}", ty, hex(bytes), coq_bool(v.strict), coq_bool(v.compat), rb));
                self.descs[sh].entry("mol".into()).or_default().push(desc);
                self.count("coq_mol_cases");
                return true;
            }
        }
        false
    }
}

fn silent<F: FnOnce() -> R, R>(f: F) -> Result<R, String> {
    catch_unwind(AssertUnwindSafe(f)).map_err(|e| {
        if let Some(s) = e.downcast_ref::<String>() {
            s.clone()
        } else if let Some(s) = e.downcast_ref::<&str>() {
            s.to_string()
        } else {
            "panic".to_string()
        }
    })
}
fn key8(ty: &str, b: &[u8]) -> [u8; 8] {
    let mut h = ckb_hash::new_blake2b();
    h.update(ty.as_bytes());
    h.update(b);
    let mut o = [0u8; 32];
    h.finalize(&mut o);
    o[..8].try_into().unwrap()
}
fn verdict_json(v: &Verdict) -> Value {
    json!({"strict": v.strict, "compat": v.compat, "rebuilt": v.rebuilt.as_ref().map(|r| hex(r))})
}
fn unhex(s: &str) -> Vec<u8> {
    (0..s.len() / 2).map(|i| u8::from_str_radix(&s[2 * i..2 * i + 2], 16).unwrap()).collect()
}

// ---------------------------------------------------------------- stream 1 ----
struct Deep<'a> {
    consensus: &'a ckb_chain_spec::consensus::Consensus,
}

impl<'a> Deep<'a> {
    /// everything the node does with a transaction before any contextual check
    fn tx(&self, tx: packed::Transaction, acc: &mut u64) {
        let v = tx.into_view();
        *acc += v.hash().as_slice()[0] as u64 + v.witness_hash().as_slice()[0] as u64;
        *acc += v.proposal_short_id().as_slice()[0] as u64;
        *acc += v.data().serialized_size_in_block() as u64;
        *acc += v.outputs_capacity().map(|c| c.as_u64()).unwrap_or(1) & 1;
        *acc += v.is_cellbase() as u64;
        *acc += v.input_pts_iter().count() as u64 + v.output_pts().len() as u64 + v.cell_deps_iter().count() as u64;
        let _ = v.outputs_with_data_iter().count();
        let r = ckb_verification::NonContextualTransactionVerifier::new(&v, self.consensus).verify();
        *acc += r.is_ok() as u64;
    }
    fn block(&self, b: packed::Block, acc: &mut u64) {
        *acc += b.serialized_size_without_uncle_proposals() as u64;
        *acc += b.count_extra_fields() as u64;
        let v = b.clone().into_view();
        *acc += v.hash().as_slice()[0] as u64;
        *acc += v.calc_transactions_root().as_slice()[0] as u64 + v.calc_proposals_hash().as_slice()[0] as u64;
        *acc += v.calc_extra_hash().extra_hash().as_slice()[0] as u64 + v.calc_uncles_hash().as_slice()[0] as u64;
        *acc += v.extension().map(|e| e.len()).unwrap_or(0) as u64;
        *acc += v.union_proposal_ids().len() as u64 + v.uncle_hashes().into_iter().count() as u64;
        *acc += v.data().serialized_size_without_uncle_proposals() as u64;
        let v2 = b.clone().into_view_without_reset_header();
        *acc += v2.hash().as_slice()[1] as u64;
        let r = ckb_verification::BlockVerifier::new(self.consensus).verify(&v);
        *acc += r.is_ok() as u64;
        for tx in b.transactions().into_iter() {
            self.tx(tx, acc);
        }
        for u in v.uncles().into_iter() {
            *acc += u.hash().as_slice()[0] as u64 + u.data().as_slice().len() as u64;
        }
    }
    fn compact(&self, cb: packed::CompactBlock, acc: &mut u64) {
        *acc += cb.calc_header_hash().as_slice()[0] as u64;
        *acc += cb.txs_len() as u64;
        *acc += cb.block_short_ids().len() as u64;
        *acc += cb.short_id_indexes().len() as u64;
        *acc += cb.extension().map(|e| e.len()).unwrap_or(0) as u64;
        *acc += cb.header().into_view().hash().as_slice()[0] as u64;
        let st = ckb_sync::verif_compact_block_verify(&cb);
        *acc += st.is_ok() as u64;
        for pt in cb.prefilled_transactions().into_iter() {
            self.tx(pt.transaction(), acc);
        }
    }
}

/// the acceptance logic of Synchronizer::received / Relayer::received, then what
/// the handlers do with the accepted message before contextual checks
fn gated(deep: &Deep, ty: &str, bytes: &[u8], out: &mut Out) -> Result<u64, String> {
    let mut acc = 0u64;
    let mut stage: Vec<&'static str> = vec![];
    let r = silent(|| {
        match ty {
            "SyncMessage" => {
                if let Ok(msg) = packed::SyncMessageReader::from_compatible_slice(bytes) {
                    match msg.to_enum() {
                        packed::SyncMessageUnionReader::SendBlock(reader) => {
                            if reader.has_extra_fields() || reader.block().count_extra_fields() > 1 {
                                stage.push("sync_sendblock_banned");
                            } else if reader.check_data() {
                                stage.push("sync_sendblock_processed");
                                deep.block(reader.block().to_entity(), &mut acc);
                            } else {
                                stage.push("sync_sendblock_malformed");
                            }
                        }
                        _ => {
                            if let Ok(m) = packed::SyncMessageReader::from_slice(bytes) {
                                stage.push("sync_other_strict_ok");
                                if let packed::SyncMessageUnionReader::SendHeaders(h) = m.to_enum() {
                                    for x in h.headers().iter() {
                                        acc += x.to_entity().into_view().hash().as_slice()[0] as u64;
                                    }
                                }
                            } else {
                                stage.push("sync_other_banned");
                            }
                        }
                    }
                }
            }
            "RelayMessage" => {
                if let Ok(msg) = packed::RelayMessageReader::from_compatible_slice(bytes) {
                    if let packed::RelayMessageUnionReader::CompactBlock(reader) = msg.to_enum() {
                        if reader.count_extra_fields() > 1 || !reader.check_data() {
                            stage.push("relay_compact_banned");
                        } else {
                            stage.push("relay_compact_processed");
                            deep.compact(reader.to_entity(), &mut acc);
                        }
                    } else if let Ok(m) = packed::RelayMessageReader::from_slice(bytes) {
                        stage.push("relay_other_strict_ok");
                        match m.to_enum() {
                            packed::RelayMessageUnionReader::RelayTransactions(r) => {
                                if r.check_data() {
                                    for t in r.transactions().iter() {
                                        deep.tx(t.transaction().to_entity(), &mut acc);
                                    }
                                }
                            }
                            packed::RelayMessageUnionReader::BlockTransactions(r) => {
                                if r.check_data() {
                                    for t in r.transactions().iter() {
                                        deep.tx(t.to_entity(), &mut acc);
                                    }
                                    for u in r.uncles().iter() {
                                        acc += u.to_entity().into_view().hash().as_slice()[0] as u64;
                                    }
                                }
                            }
                            packed::RelayMessageUnionReader::BlockProposal(r) => {
                                for t in r.transactions().iter() {
                                    deep.tx(t.to_entity(), &mut acc);
                                }
                            }
                            _ => {}
                        }
                    } else {
                        stage.push("relay_other_banned");
                    }
                }
            }
            _ => {}
        }
    });
    for s in stage {
        out.count(s);
    }
    r.map(|_| acc)
}

fn stream_messages(rng: &mut Rng, out: &mut Out, thorough: bool) {
    let consensus = ckb_chain_spec::consensus::ConsensusBuilder::default().build();
    let deep = Deep { consensus: &consensus };
    let msg_types = [
        "SyncMessage", "RelayMessage", "LightClientMessage", "BlockFilterMessage", "PingMessage", "DiscoveryMessage",
        "IdentifyMessage", "HolePunchingMessage", "Time", "Alert", "Identify", "Block", "BlockV1", "CompactBlock",
        "CompactBlockV1", "Transaction", "Header", "UncleBlock", "InIBD", "SendBlock", "BlockTransactions",
        "GetBlockTransactions", "FilteredBlock", "SendLastStateProof", "SendBlocksProofV1", "SendTransactionsProofV1",
        "VerifiableHeader", "CellbaseWitness", "WitnessArgs", "RelayTransactions", "GetNodes2", "Nodes2",
    ];
    let tes: Vec<&TypeEntry> = msg_types.iter().map(|n| TYPES.iter().find(|t| t.name == *n).expect("message type in schema")).collect();
    let rounds = if thorough { 3000 } else { 260 };
    let mut g = Gen::new(rng.fork());
    for round in 0..rounds {
        for te in tes.iter() {
            // base value: valid, or valid with extra table fields
            g.reset(if round % 4 == 0 { 90 } else { 35 });
            g.extra_permille = if round % 3 == 0 { 0 } else { 200 };
            let base = (te.gen)(&mut g);
            let mut inputs: Vec<(Vec<u8>, String)> = vec![];
            if round % 10 == 0 {
                inputs.push((base.clone(), if g.extras_inserted > 0 { "valid+extra-fields".into() } else { "valid".into() }));
            }
            // random bytes
            if round % 5 == 1 {
                let n = rng.below(40) as usize;
                let mut b: Vec<u8> = (0..n).map(|_| rng.below(256) as u8).collect();
                if n >= 4 && rng.chance(2, 3) {
                    let l = n as u32;
                    b[0..4].copy_from_slice(&l.to_le_bytes());
                }
                inputs.push((b, "random".into()));
            }
            // stacked mutations
            for _ in 0..3 {
                let k = rng.range(1, 3);
                let mut m = base.clone();
                let mut tags = vec![];
                for _ in 0..k {
                    let (m2, tag) = mutate(rng, &m, te.kind == "table");
                    m = m2;
                    tags.push(tag);
                }
                if m.len() <= 6000 {
                    inputs.push((m, tags.join("+")));
                }
            }
            for (bytes, how) in inputs {
                out.evaluations += 1;
                out.count("messages");
                out.count(if how == "random" { "msg_random" } else if how.starts_with("valid") { "msg_valid" } else { "msg_mutant" });
                if !out.distinct.insert(key8(te.name, &bytes)) {
                    continue;
                }
                let d = |extra: Value| json!({"type": te.name, "bytes": hex(&bytes), "how": how, "info": extra});
                let f = te.check;
                match silent(|| f(&bytes, true)) {
                    Err(p) => out.violation(&format!("panic in a generated accessor after a successful decode: {p}"), d(json!(null)), None),
                    Ok(v) => {
                        out.count(if v.strict { "msg_accepted_strict" } else if v.compat { "msg_accepted_compat_only" } else { "msg_rejected" });
                        if v.empty_table_panics > 0 {
                            out.violation(
                                "field_count()/count_extra_fields()/has_extra_fields() of a field-less table panic on a slice accepted by from_compatible_slice",
                                d(verdict_json(&v)),
                                Some(SIG_EMPTY_TABLE),
                            );
                        }
                        if let Some(r) = &v.rebuilt {
                            if r.len() > bytes.len() {
                                out.violation("decoded value is larger than the frame it came from", d(verdict_json(&v)), None);
                            }
                        }
                        if v.strict && v.rebuilt.as_deref() != Some(&bytes[..]) {
                            out.violation("strictly accepted bytes are not canonical", d(verdict_json(&v)), None);
                        }
                        let want = if v.compat { bytes.len() <= 1200 } else { bytes.len() <= 500 && rng.chance(1, 2) };
                        if want {
                            out.push_mol(te.name, &bytes, &v, json!({"stream": "message", "how": how, "type": te.name, "bytes": hex(&bytes), "rust": verdict_json(&v)}));
                        }
                    }
                }
                if te.name == "SyncMessage" || te.name == "RelayMessage" {
                    if let Err(p) = gated(&deep, te.name, &bytes, out) {
                        let sig = if p.contains("called `Result::unwrap()` on an `Err` value") && (p.contains("TotalSizeNotMatch") || p.contains("HeaderIsBroken") || p.contains("Bytes")) { Some(SIG_EXTENSION) } else { None };
                        out.violation(&format!("panic while the node processes a message it accepted: {p}"), d(json!(null)), sig);
                    }
                }
            }
        }
        // aimed: a block / compact block with exactly one extra field (the slot of `extension`)
        g.reset(20);
        g.extra_permille = 0;
        let extra: Vec<u8> = match round % 4 {
            0 => vec![],
            1 => (0..rng.range(1, 7)).map(|_| rng.below(256) as u8).collect(),
            2 => gen_schema::gen_Bytes(&mut g).as_slice().to_vec(),
            _ => {
                let mut b = gen_schema::gen_Bytes(&mut g).as_slice().to_vec();
                b.push(0);
                b
            }
        };
        let blk = packed::Block::new_unchecked(add_extra_field(gen_schema::gen_Block(&mut g).as_slice(), &extra).into());
        let sb = packed::SendBlock::new_builder().block(blk).build();
        let msg = packed::SyncMessage::new_builder().set(sb).build();
        out.evaluations += 1;
        out.count("aimed_sendblock_one_extra_field");
        if let Err(p) = gated(&deep, "SyncMessage", msg.as_slice(), out) {
            out.violation(
                &format!("panic while the node processes a SendBlock it accepted (block with one extra field that is not a valid Bytes): {p}"),
                json!({"type": "SyncMessage", "bytes": hex(msg.as_slice()), "extra_field": hex(&extra)}),
                Some(SIG_EXTENSION),
            );
        }
        let cbv = packed::CompactBlock::new_unchecked(add_extra_field(gen_schema::gen_CompactBlock(&mut g).as_slice(), &extra).into());
        let msg = packed::RelayMessage::new_builder().set(cbv).build();
        out.evaluations += 1;
        out.count("aimed_compact_one_extra_field");
        if let Err(p) = gated(&deep, "RelayMessage", msg.as_slice(), out) {
            out.violation(
                &format!("panic while the node processes a CompactBlock it accepted (one extra field that is not a valid Bytes): {p}"),
                json!({"type": "RelayMessage", "bytes": hex(msg.as_slice()), "extra_field": hex(&extra)}),
                Some(SIG_EXTENSION),
            );
        }
    }
    for (k, v) in g.stats.iter() {
        *out.stats.entry(format!("gen_{k}")).or_default() += v;
    }
}

// ---------------------------------------------------------------- stream 2 ----
fn varint(mut n: u64) -> Vec<u8> {
    let mut v = vec![];
    while n >= 0x80 {
        v.push((n as u8 & 0x7f) | 0x80);
        n >>= 7;
    }
    v.push(n as u8);
    v
}

fn stream_frames(rng: &mut Rng, out: &mut Out, thorough: bool) {
    use ckb_network::bytes::{Bytes, BytesMut};
    use ckb_network::compress::{compress, decompress};
    let n = if thorough { 20000 } else { 2500 };
    let g_frame = 1usize;
    const MAX: usize = 1 << 23;
    for i in 0..n {
        // a payload and its honest frame
        let len = match if i < 4 { 100 + i as u64 } else { rng.below(12) } {
            // honest frames exactly at / one over the decompression limit (highly compressible)
            100 => MAX as u64,
            101 => MAX as u64 + 1,
            102 => MAX as u64 - 1,
            103 => 2 * MAX as u64,
            0 => 0,
            1 => 1023,
            2 => 1024,
            3 => 1025,
            4 => rng.range(1026, 5000),
            5 => rng.range(100_000, 300_000),
            _ => rng.range(1, 2000),
        } as usize;
        let compressible = len >= MAX - 1 || rng.chance(1, 2);
        let payload: Vec<u8> = (0..len).map(|k| if compressible { (k / 7) as u8 } else { rng.below(256) as u8 }).collect();
        let honest = match silent(|| compress(Bytes::from(payload.clone()))) {
            Ok(f) => f.to_vec(),
            Err(p) => {
                out.violation(&format!("compress panicked: {p}"), json!({"payload_len": len}), None);
                continue;
            }
        };
        let mut frames: Vec<(Vec<u8>, &'static str)> = vec![(honest.clone(), "honest")];
        // adversarial frames
        let body: Vec<u8> = honest[1..].to_vec();
        match i % 8 {
            0 => frames.push((vec![], "empty")),
            1 => {
                let mut f = vec![0x80u8];
                f.extend(varint(*rng.pick(&[MAX as u64, MAX as u64 + 1, MAX as u64 - 1, u32::MAX as u64, 1 << 40, 0])));
                f.extend((0..rng.below(30)).map(|_| rng.below(256) as u8));
                frames.push((f, "declared-length-at-limit"));
            }
            2 => {
                let mut f = honest.clone();
                f[0] = *rng.pick(&[0x01u8, 0x7f, 0xff, 0x81, 0x80, 0x00, 0x40]);
                frames.push((f, "flag-byte"));
            }
            3 => {
                let mut f = vec![0x80u8];
                f.extend((0..rng.below(64)).map(|_| rng.below(256) as u8));
                frames.push((f, "random-compressed"));
            }
            4 if body.len() > 2 => {
                let mut f = honest.clone();
                let p = 1 + rng.below(std::cmp::min(body.len(), 12) as u64) as usize;
                f[p] ^= 1 << rng.below(8);
                frames.push((f, "bitflip-header"));
            }
            5 if body.len() > 2 => {
                let mut f = honest.clone();
                f.truncate(1 + rng.below(body.len() as u64) as usize);
                frames.push((f, "truncated"));
            }
            6 => {
                // compressed frame whose declared length differs from the real one
                let enc = snap::raw::Encoder::new().compress_vec(&payload).unwrap();
                let real = snap::raw::decompress_len(&enc).unwrap_or(0);
                let hdr = varint(real as u64).len();
                let mut f = vec![0x80u8];
                f.extend(varint((real as u64).wrapping_add(*rng.pick(&[1u64, 2, 100])).saturating_sub(*rng.pick(&[0u64, 3]))));
                f.extend_from_slice(&enc[hdr.min(enc.len())..]);
                frames.push((f, "declared-length-wrong"));
            }
            _ => {
                let mut f = honest.clone();
                f.extend((0..rng.range(1, 5)).map(|_| rng.below(256) as u8));
                frames.push((f, "extended"));
            }
        }
        for (frame, how) in frames {
            out.evaluations += 1;
            out.count("frames");
            out.count(&format!("frame_{how}"));
            out.distinct.insert(key8("frame", &frame[..std::cmp::min(frame.len(), 4096)]));
            let res = silent(|| decompress(BytesMut::from(&frame[..])));
            let res = match res {
                Err(p) => {
                    out.violation(&format!("decompress panicked: {p}"), json!({"frame_prefix": hex(&frame[..std::cmp::min(64, frame.len())]), "frame_len": frame.len(), "how": how}), None);
                    continue;
                }
                Ok(r) => r.ok().map(|b| b.to_vec()),
            };
            // the same frame as it arrives on a connection: LengthDelimitedCodecWithCompress (length prefix,
            // the relay protocol's 4 MB frame limit) must give what decompress gives — same bytes or an error,
            // and never more than the declared bound
            if frame.len() + 1 <= 4 * 1024 * 1024 && !frame.is_empty() {
                use tokio_util::codec::{length_delimited::LengthDelimitedCodec, Decoder};
                let mut wire = BytesMut::with_capacity(frame.len() + 4);
                wire.extend_from_slice(&(frame.len() as u32).to_be_bytes());
                wire.extend_from_slice(&frame);
                let mut codec = ckb_network::compress::LengthDelimitedCodecWithCompress::new(true, LengthDelimitedCodec::builder().max_frame_length(4 * 1024 * 1024).new_codec(), 101usize.into());
                match silent(|| codec.decode(&mut wire)) {
                    Err(p) => out.violation(&format!("the frame codec panicked: {p}"), json!({"frame_prefix": hex(&frame[..std::cmp::min(64, frame.len())]), "frame_len": frame.len(), "how": how}), None),
                    Ok(r) => {
                        let via_codec: Option<Vec<u8>> = r.ok().flatten().map(|b| b.to_vec());
                        out.count("frames_through_the_codec");
                        if let Some(o) = &via_codec {
                            if o.len() > MAX {
                                out.violation("the frame codec yielded a message above the declared bound of 8 MB", json!({"frame_len": frame.len(), "out_len": o.len(), "how": how}), None);
                            }
                        }
                        // one-byte frames are an error for the codec (flag byte without body) and Ok(empty) never occurs for decompress
                        if frame.len() >= 2 && via_codec != res {
                            out.violation("the frame codec and compress::decompress disagree on the same frame", json!({"frame_len": frame.len(), "how": how, "codec": via_codec.as_ref().map(|o| o.len()), "decompress": res.as_ref().map(|o| o.len())}), None);
                        }
                    }
                }
            }
            // property: bounded output, honest frames round-trip
            if let Some(o) = &res {
                if o.len() > std::cmp::max(MAX, frame.len()) {
                    out.violation("decompress returned more than the declared bound", json!({"frame_len": frame.len(), "out_len": o.len(), "how": how}), None);
                }
            }
            if how == "honest" && len > MAX {
                if res.is_some() {
                    out.violation("decompress accepted a frame that declares more than MAX_UNCOMPRESSED_LEN bytes", json!({"payload_len": len, "frame_len": frame.len()}), None);
                }
            } else if how == "honest" && res.as_deref() != Some(&payload[..]) {
                out.violation("decompress(compress(x)) != x", json!({"payload_len": len, "frame_prefix": hex(&frame[..std::cmp::min(64, frame.len())])}), None);
            }
            if how == "declared-length-at-limit" {
                out.count(if res.is_some() { "frame_limit_accepted" } else { "frame_limit_rejected" });
            }
            // oracle answers of the snap crate for the model
            let (flag, slen, sdec): (u8, Option<u64>, Option<u64>) = if frame.is_empty() {
                (0, None, None)
            } else {
                let sl = snap::raw::decompress_len(&frame[1..]).ok().map(|x| x as u64);
                let sd = match sl {
                    Some(nn) if nn as usize <= MAX => {
                        let mut buf = vec![0u8; nn as usize];
                        snap::raw::Decoder::new().decompress(&frame[1..], &mut buf).ok().map(|_| nn)
                    }
                    _ => None,
                };
                (frame[0], sl, sd)
            };
            let sh = (out.evaluations as usize) % SHARDS;
            out.files[sh].push(
                g_frame,
                format!(
                    "({}, {}, {}, {}, {})",
                    coq_n(frame.len() as u128),
                    coq_n(flag as u128),
                    coq_option(&slen, |x| coq_n(*x as u128)),
                    coq_option(&sdec, |x| coq_n(*x as u128)),
                    coq_option(&res.as_ref().map(|o| o.len() as u64), |x| coq_n(*x as u128))
                ),
            );
            out.descs[sh].entry("frame".into()).or_default().push(json!({"how": how, "frame_len": frame.len(), "flag": flag, "snappy_len": slen, "result_len": res.as_ref().map(|o| o.len()), "frame_prefix": hex(&frame[..std::cmp::min(48, frame.len())])}));
        }
    }
}

// ---------------------------------------------------------------- stream 3 ----
mod node {
    use super::*;
    use ckb_app_config::NetworkConfig;
    use ckb_chain::ChainServiceScope;
    use ckb_network::{network::TransportType, Flags, NetworkController, NetworkService, NetworkState};
    use ckb_shared::{Shared, SharedBuilder};
    use ckb_sync::{Relayer, SyncShared};

    pub struct Node {
        pub shared: Shared,
        pub relayer: Relayer,
        pub _scope: ChainServiceScope,
        pub _tmp: tempfile::TempDir,
    }

    fn dummy_network(shared: &Shared, tmp: &tempfile::TempDir) -> NetworkController {
        let config = NetworkConfig {
            max_peers: 19,
            max_outbound_peers: 5,
            path: tmp.path().to_path_buf(),
            ping_interval_secs: 15,
            ping_timeout_secs: 20,
            connect_outbound_interval_secs: 1,
            discovery_local_address: true,
            bootnode_mode: true,
            reuse_port_on_linux: true,
            ..Default::default()
        };
        let network_state = Arc::new(NetworkState::from_config(config).expect("Init network state failed"));
        NetworkService::new(
            network_state,
            vec![],
            vec![],
            (shared.consensus().identify_name(), "hx".to_string(), Flags::COMPATIBILITY),
            TransportType::Tcp,
        )
        .start(shared.async_handle())
        .expect("Start network service failed")
    }

    pub fn start() -> Node {
        start_with(ckb_chain_spec::consensus::ConsensusBuilder::default().build())
    }

    pub fn start_with(consensus: ckb_chain_spec::consensus::Consensus) -> Node {
        let tmp = tempfile::Builder::new().prefix("hx-relay").tempdir_in(scratch_dir("C16")).unwrap();
        let (shared, mut pack) = SharedBuilder::with_temp_db().consensus(consensus).build().unwrap();
        let network = dummy_network(&shared, &tmp);
        pack.take_tx_pool_builder().start(network);
        let scope = ChainServiceScope::new(pack.take_chain_services_builder());
        while scope.chain_controller().is_verifying_unverified_blocks_on_startup() {
            std::thread::sleep(std::time::Duration::from_millis(10));
        }
        let sync_shared = Arc::new(SyncShared::new(shared.clone(), Default::default(), pack.take_relay_tx_receiver()));
        let relayer = Relayer::new(scope.chain_controller().clone(), sync_shared);
        Node { shared, relayer, _scope: scope, _tmp: tmp }
    }
}

fn fresh_tx(rng: &mut Rng, serial: &mut u64) -> core::TransactionView {
    *serial += 1;
    let mut h = [0u8; 32];
    h[..8].copy_from_slice(&serial.to_le_bytes());
    h[8..16].copy_from_slice(&rng.next().to_le_bytes());
    core::TransactionBuilder::default()
        .input(packed::CellInput::new(packed::OutPoint::new(h.pack(), rng.below(4) as u32), 0))
        .output(packed::CellOutput::new_builder().capacity(core::Capacity::shannons(rng.next() % 1_000_000).pack()).build())
        .output_data(ckb_types::bytes::Bytes::new().pack())
        .build()
}

fn coq_ctx(id: u64) -> String {
    format!("({}, {})", coq_n(id as u128), coq_n(id as u128))
}

fn stream_reconstruct(rng: &mut Rng, out: &mut Out, thorough: bool) {
    use ckb_sync::ReconstructionResult as RR;
    let node = match silent(node::start) {
        Ok(n) => n,
        Err(p) => {
            out.violation(&format!("could not start the temp-db node for reconstruct_block: {p}"), json!(null), None);
            return;
        }
    };
    let rt = tokio::runtime::Builder::new_current_thread().enable_all().build().unwrap();
    let g_recon = 2usize;
    let n_cases = if thorough { 12000 } else { 1500 };
    let mut serial = 0u64;
    let genesis = node.shared.consensus().genesis_block().clone();
    let genesis_hash = genesis.hash();
    let mut g = Gen::new(rng.fork());
    for ci in 0..n_cases {
        let n = rng.range(1, 8) as usize;
        let txs: Vec<core::TransactionView> = (0..n).map(|_| fresh_tx(rng, &mut serial)).collect();
        let foreign: Vec<core::TransactionView> = (0..2).map(|_| fresh_tx(rng, &mut serial)).collect();
        let mut id_of: HashMap<packed::Byte32, u64> = HashMap::new();
        let mut id_of_sid: HashMap<packed::ProposalShortId, u64> = HashMap::new();
        for (i, t) in txs.iter().chain(foreign.iter()).enumerate() {
            id_of.insert(t.hash(), i as u64);
            id_of_sid.insert(t.proposal_short_id(), i as u64);
        }
        let unverified = ci % 5 == 4;
        // prefilled positions
        let mut pre_idx: Vec<usize> = vec![0];
        for i in 1..n {
            if rng.chance(1, 3) {
                pre_idx.push(i);
            }
        }
        let mut short_idx: Vec<usize> = (0..n).filter(|i| !pre_idx.contains(i)).collect();
        let mut pre: Vec<(u32, usize)> = pre_idx.iter().map(|i| (*i as u32, *i)).collect();
        if unverified {
            match rng.below(7) {
                0 => pre.reverse(),
                1 => {
                    if let Some(l) = pre.last_mut() {
                        l.0 += rng.range(1, 3) as u32; // beyond txs_len or swallowing a short id slot
                    }
                }
                2 => pre[0].0 = 1,
                3 => {
                    let d = pre[pre.len() - 1];
                    pre.push(d);
                }
                4 => {
                    if !short_idx.is_empty() {
                        let d = short_idx[0];
                        short_idx.push(d); // duplicated short id
                    }
                }
                5 => {
                    if !short_idx.is_empty() {
                        // a prefilled (non-cellbase) transaction that is also listed
                        pre.push((n as u32, short_idx[0]));
                    }
                }
                _ => pre.clear(),
            }
        }
        // uncles
        let n_unc = if rng.chance(1, 2) { 0 } else { rng.range(1, 3) as usize };
        #[derive(Clone)]
        enum UK {
            Given(packed::UncleBlock, u64),
            Local,
            Miss(packed::UncleBlock),
            Invalid(packed::UncleBlock),
            /// status says received / stored / header only, but the block is neither in the orphan pool nor in the store
            Gone(packed::UncleBlock, u8),
        }
        let mut uks: Vec<UK> = vec![];
        for k in 0..n_unc {
            g.reset(6);
            let ub = gen_schema::gen_UncleBlock(&mut g);
            uks.push(match rng.below(10) {
                0..=3 => UK::Given(ub, 100 + k as u64),
                4..=6 => UK::Local,
                7 => UK::Miss(ub),
                8 => UK::Gone(ub, rng.below(3) as u8),
                _ => UK::Invalid(ub),
            });
        }
        let uncle_blocks: Vec<packed::UncleBlock> = uks
            .iter()
            .map(|u| match u {
                UK::Given(b, _) | UK::Miss(b) | UK::Invalid(b) | UK::Gone(b, _) => b.clone(),
                UK::Local => genesis.as_uncle().data(),
            })
            .collect();
        // committed block: header commitments consistent by construction
        let committed_order: Vec<usize> = match rng.below(10) {
            0 if n >= 2 => {
                let mut o: Vec<usize> = (0..n).collect();
                o.swap(n - 1, n - 2);
                o
            }
            1 => vec![],
            _ => (0..n).collect(),
        };
        g.reset(6);
        let proposals = gen_schema::gen_ProposalShortIdVec(&mut g);
        let with_ext = rng.chance(1, 5);
        g.reset(4);
        let ext = gen_schema::gen_Bytes(&mut g);
        g.reset(4);
        let hdr0 = gen_schema::gen_Header(&mut g);
        let committed_txs: Vec<packed::Transaction> = committed_order.iter().map(|i| txs[*i].data()).collect();
        let full: core::BlockView = if with_ext {
            packed::BlockV1::new_builder().header(hdr0).uncles(uncle_blocks.clone().pack()).transactions(committed_txs.pack()).proposals(proposals.clone()).extension(ext.clone()).build().as_v0().into_view()
        } else {
            packed::Block::new_builder().header(hdr0).uncles(uncle_blocks.clone().pack()).transactions(committed_txs.pack()).proposals(proposals.clone()).build().into_view()
        };
        // what GetBlockTransactionsProcess does with a peer's indexes on a stored block:
        // `block.transactions().get(i)` / `block.uncles().get(i)`, filter_map over the answers
        {
            let nu = full.uncles().data().len();
            let nt = full.transactions().len();
            for i in [0usize, nu.saturating_sub(1), nu, nu + 1, u32::MAX as usize] {
                match silent(|| full.uncles().get(i).is_some()) {
                    Ok(some) => if some != (i < nu) { out.violation(&format!("uncles().get({i}) on a block with {nu} uncles answers {some}"), json!({"stream": "reconstruct", "block": hex(full.data().as_slice())}), None); },
                    Err(p) => out.violation(&format!("uncles().get({i}) on a block with {nu} uncles panics ({p}): a GetBlockTransactions request with that uncle index crashes the relay handler"), json!({"stream": "reconstruct", "block": hex(full.data().as_slice())}), None),
                }
            }
            for i in [0usize, nt.saturating_sub(1), nt, nt + 1, u32::MAX as usize] {
                match silent(|| full.transactions().get(i).is_some()) {
                    Ok(some) => if some != (i < nt) { out.violation(&format!("transactions().get({i}) with {nt} transactions answers {some}"), json!({"stream": "reconstruct"}), None); },
                    Err(p) => out.violation(&format!("transactions().get({i}) panics ({p})"), json!({"stream": "reconstruct"}), None),
                }
            }
            out.count("peer_index_accessor_probes");
        }
        let header = full.data().header();
        // the compact block may carry other proposals than the header commits to
        let hdr_ok = !rng.chance(1, 6);
        let carried_proposals = if hdr_ok { proposals.clone() } else { proposals.clone().as_builder().push(packed::ProposalShortId::new([7u8; 10])).build() };
        let short_ids: Vec<packed::ProposalShortId> = short_idx.iter().map(|i| txs[*i].proposal_short_id()).collect();
        let prefilled: Vec<packed::IndexTransaction> = pre.iter().map(|(ix, ti)| packed::IndexTransaction::new_builder().index(Pack::<packed::Uint32>::pack(ix)).transaction(txs[*ti].data()).build()).collect();
        let uncle_hashes: Vec<packed::Byte32> = uncle_blocks.iter().map(|u| u.calc_header_hash()).collect();
        let compact: packed::CompactBlock = if with_ext {
            packed::CompactBlockV1::new_builder().header(header.clone()).short_ids(short_ids.clone().pack()).prefilled_transactions(prefilled.clone().pack()).uncles(uncle_hashes.clone().pack()).proposals(carried_proposals).extension(ext.clone()).build().as_v0()
        } else {
            packed::CompactBlock::new_builder().header(header.clone()).short_ids(short_ids.clone().pack()).prefilled_transactions(prefilled.clone().pack()).uncles(uncle_hashes.clone().pack()).proposals(carried_proposals).build()
        };
        // block status of the uncles
        let mut uncles_index: Vec<u32> = vec![];
        let mut recv_uncles: Vec<core::UncleBlockView> = vec![];
        let mut coq_uncles: Vec<String> = vec![];
        let mut coq_recv_uncles: Vec<u64> = vec![];
        let mut uncle_id: HashMap<packed::Byte32, u64> = HashMap::new();
        uncle_id.insert(genesis_hash.clone(), 0);
        let drop_one_given = rng.chance(1, 7);
        for (k, u) in uks.iter().enumerate() {
            match u {
                UK::Given(b, id) => {
                    uncles_index.push(k as u32);
                    uncle_id.insert(b.calc_header_hash(), *id);
                    if !(drop_one_given && recv_uncles.is_empty()) {
                        recv_uncles.push(b.clone().into_view());
                        coq_recv_uncles.push(*id);
                    }
                    coq_uncles.push("UGiven".into());
                }
                UK::Local => coq_uncles.push("(ULocal 0%N)".into()),
                UK::Miss(_) => coq_uncles.push("UMiss".into()),
                UK::Gone(b, k) => {
                    use ckb_shared::block_status::BlockStatus;
                    let st = match k { 0 => BlockStatus::BLOCK_RECEIVED, 1 => BlockStatus::BLOCK_STORED, _ => BlockStatus::HEADER_VALID };
                    node.shared.insert_block_status(b.calc_header_hash(), st);
                    out.count(match k { 0 => "uncle_received_but_not_in_orphan_pool", 1 => "uncle_stored_status_but_not_in_store", _ => "uncle_header_only" });
                    coq_uncles.push("UMiss".into());
                }
                UK::Invalid(b) => {
                    node.shared.insert_block_status(b.calc_header_hash(), ckb_shared::block_status::BlockStatus::BLOCK_INVALID);
                    coq_uncles.push("UInvalid".into());
                }
            }
        }
        // what is available
        let mut recv: Vec<core::TransactionView> = vec![];
        let mut pool: Vec<core::TransactionView> = vec![];
        let all_recv = rng.chance(1, 6);
        for i in short_idx.iter() {
            match if all_recv { 0 } else { rng.below(6) } {
                0 | 1 => {
                    if !recv.iter().any(|t| t.hash() == txs[*i].hash()) {
                        recv.push(txs[*i].clone())
                    }
                }
                2 | 3 | 4 => {
                    if !pool.iter().any(|t| t.hash() == txs[*i].hash()) {
                        pool.push(txs[*i].clone())
                    }
                }
                _ => {}
            }
        }
        if rng.chance(1, 5) {
            recv.push(foreign[0].clone());
        }
        if rng.chance(1, 8) && !recv.is_empty() {
            let d = recv[0].clone();
            recv.push(d);
        }
        if rng.chance(1, 5) {
            pool.push(foreign[1].clone());
        }
        if rng.chance(1, 10) {
            // a prefilled transaction also sits in the pool / is also received
            pool.push(txs[0].clone());
        }
        let entries: Vec<ckb_tx_pool::TxEntry> = pool.iter().cloned().map(|tx| ckb_tx_pool::TxEntry::dummy_resolve(tx, 0, core::Capacity::shannons(0), 0)).collect();
        if !entries.is_empty() {
            node.shared.tx_pool_controller().plug_entry(entries, ckb_tx_pool::PlugTarget::Pending).unwrap();
        }
        // ---- run the implementation
        let verify_ok = ckb_sync::verif_compact_block_verify(&compact).is_ok();
        // BlockUnclesVerifier stands between a BlockTransactions reply and reconstruct_block
        let uncles_ok = ckb_sync::verif_block_uncles_verify(&compact, &uncles_index, &recv_uncles).is_ok();
        if uncles_ok && recv_uncles.len() != uncles_index.len() {
            out.violation(
                &format!("BlockUnclesVerifier accepts a reply with {} uncle(s) for {} requested index(es); reconstruct_block then indexes the received uncles by position ('have checked the indexes')", recv_uncles.len(), uncles_index.len()),
                json!({"stream": "reconstruct", "compact_block": hex(compact.as_slice()), "uncles_index": uncles_index, "received_uncles": recv_uncles.iter().map(|u| hex(u.data().as_slice())).collect::<Vec<_>>()}),
                None);
        }
        let active = node.relayer.shared().active_chain();
        let res = silent(|| rt.block_on(node.relayer.reconstruct_block(&active, &compact, recv.clone(), &uncles_index, &recv_uncles)));
        out.evaluations += 1;
        out.count("reconstruct_cases");
        out.count(if verify_ok { "recon_verified" } else { "recon_unverified" });
        let compact_hash = compact.calc_header_hash();
        let ctx = json!({
            "stream": "reconstruct", "compact_block": hex(compact.as_slice()),
            "received": recv.iter().map(|t| hex(t.data().as_slice())).collect::<Vec<_>>(),
            "pool": pool.iter().map(|t| hex(t.data().as_slice())).collect::<Vec<_>>(),
            "uncles_index": uncles_index, "received_uncles": recv_uncles.iter().map(|u| hex(u.data().as_slice())).collect::<Vec<_>>(),
            "compact_verifier_ok": verify_ok, "header_commitments_match_carried_data": hdr_ok,
        });
        let committed_ids: Vec<u64> = committed_order.iter().map(|i| *i as u64).collect();
        let obs: String = match &res {
            Err(p) => {
                out.count("recon_panic");
                if verify_ok && uncles_ok {
                    out.violation(&format!("reconstruct_block panicked on a compact block that passed CompactBlockVerifier with uncles that passed BlockUnclesVerifier: {p}"), ctx.clone(), None);
                }
                "OPanic".into()
            }
            Ok(RR::Block(b)) => {
                out.count("recon_block");
                let ids: Vec<u64> = b.transactions().iter().map(|t| *id_of.get(&t.hash()).unwrap_or(&9999)).collect();
                let us: Vec<u64> = b.uncles().data().into_iter().map(|u| *uncle_id.get(&u.calc_header_hash()).unwrap_or(&9999)).collect();
                let same = b.hash() == compact_hash;
                // ---- the property, on the implementation's answer
                if ids != committed_ids {
                    out.violation("reconstruct_block returned a block whose transactions are not the committed ones", json!({"case": ctx, "got": ids, "committed": committed_ids}), None);
                }
                if uks.iter().any(|u| matches!(u, UK::Miss(_) | UK::Gone(..))) {
                    out.violation("reconstruct_block returned a block although an uncle the compact block lists is not available (it must be reported missing)", json!({"case": ctx, "uncles": coq_uncles}), None);
                }
                if !same {
                    out.count("recon_block_header_rewritten");
                    out.violation(
                        "reconstruct_block returned Block(b) with b.hash() != the compact block's header hash: into_view() recomputed proposals_hash/extra_hash from the carried data and only the transactions root is compared",
                        json!({"case": ctx, "returned_hash": format!("{:x}", b.hash()), "compact_hash": format!("{:x}", compact_hash)}),
                        Some(SIG_REWRITE),
                    );
                }
                if verify_ok {
                    for (ix, ti) in pre.iter() {
                        if b.transactions().get(*ix as usize).map(|t| t.hash()) != Some(txs[*ti].hash()) {
                            out.violation("a prefilled transaction is not at its index in the reconstructed block", ctx.clone(), None);
                        }
                    }
                }
                format!("(OBlock {} {} {})", coq_list(&ids, |x| coq_n(*x as u128)), coq_list(&us, |x| coq_n(*x as u128)), coq_bool(same))
            }
            Ok(RR::Missing(is, us)) => {
                out.count("recon_missing");
                if verify_ok {
                    // independent recomputation of what is missing
                    let avail: BTreeSet<packed::Byte32> = recv.iter().chain(pool.iter()).map(|t| t.hash()).collect();
                    // slot of the j-th short id = j-th position that is not a prefilled index
                    let pre_pos: BTreeSet<usize> = pre.iter().map(|p| p.0 as usize).collect();
                    let free: Vec<usize> = (0..pre.len() + short_idx.len()).filter(|p| !pre_pos.contains(p)).collect();
                    let want: Vec<usize> = short_idx.iter().enumerate().filter(|(_, ti)| !avail.contains(&txs[**ti].hash())).map(|(j, _)| free[j]).collect();
                    if &want != is {
                        out.violation("Missing(indexes) is not exactly the set of positions without an available transaction", json!({"case": ctx, "got": is, "expected": want}), None);
                    }
                    let want_u: Vec<usize> = uks.iter().enumerate().filter(|(_, u)| matches!(u, UK::Miss(_) | UK::Gone(..))).map(|(k, _)| k).collect();
                    if &want_u != us {
                        out.violation("Missing(uncles) is not exactly the set of unknown uncles", json!({"case": ctx, "got": us, "expected": want_u}), None);
                    }
                }
                format!("(OMissing {} {})", coq_list(is, |x| coq_n(*x as u128)), coq_list(us, |x| coq_n(*x as u128)))
            }
            Ok(RR::Collided) => {
                out.count("recon_collided");
                "OCollided".into()
            }
            Ok(RR::Error(st)) => {
                let code = st.code();
                if code == ckb_sync::StatusCode::CompactBlockHasInvalidUncle {
                    out.count("recon_error_invalid_uncle");
                    "OErrUncle".into()
                } else if code == ckb_sync::StatusCode::CompactBlockHasUnmatchedTransactionRootWithReconstructedBlock {
                    out.count("recon_error_root");
                    "OErrRoot".into()
                } else {
                    out.violation(&format!("unexpected reconstruct_block error {:?}", code), ctx.clone(), None);
                    continue;
                }
            }
        };
        // undo the invalid marks so that later cases are independent
        for u in uks.iter() {
            if let UK::Invalid(b) = u {
                node.shared.remove_block_status(&b.calc_header_hash());
            }
        }
        // ---- Coq case
        let sid_num = |s: &packed::ProposalShortId| *id_of_sid.get(s).unwrap_or(&9998);
        let case = format!(
            "mkRecon {} {} {} {} {} {} {} {} {} {}",
            coq_list(&committed_ids, |x| coq_n(*x as u128)),
            coq_list(&short_ids, |s| coq_n(sid_num(s) as u128)),
            coq_list(&pre, |(ix, ti)| format!("({}, {})", coq_nat(*ix as u64), coq_ctx(*ti as u64))),
            coq_list(&coq_uncles, |s| s.clone()),
            coq_bool(hdr_ok),
            coq_list(&recv, |t| coq_ctx(id_of[&t.hash()])),
            coq_list(&pool, |t| format!("({}, {})", coq_n(id_of[&t.hash()] as u128), coq_ctx(id_of[&t.hash()]))),
            coq_list(&coq_recv_uncles, |x| coq_n(*x as u128)),
            coq_bool(verify_ok),
            obs
        );
        let sh = ci % SHARDS;
        out.files[sh].push(g_recon, case);
        // BlockUnclesVerifier: the compact block's uncle hashes, the requested indexes, the hashes of the reply
        {
            let mut num: HashMap<packed::Byte32, u64> = HashMap::new();
            let mut id = |h: packed::Byte32| -> u64 { let n = num.len() as u64 + 1; *num.entry(h).or_insert(n) };
            let all: Vec<u64> = compact.uncles().into_iter().map(&mut id).collect();
            let got: Vec<u64> = recv_uncles.iter().map(|u| id(u.hash())).collect();
            out.files[sh].push(g_recon + 1, format!("mkUV {} {} {} {}", coq_list(&all, |x| coq_n(*x as u128)), coq_list(&uncles_index, |x| coq_nat(*x as u64)), coq_list(&got, |x| coq_n(*x as u128)), coq_bool(uncles_ok)));
            out.descs[sh].entry("uverify".into()).or_default().push(json!({"stream": "reconstruct", "uncles": all, "uncles_index": uncles_index, "received": got, "verifier_ok": uncles_ok}));
        }
        // BlockTransactionsVerifier: this compact block as the PENDING one (it may be another peer's than the one the
        // indexes were computed from), indexes in and out of its range, honest and dishonest replies
        {
            let slots = compact.block_short_ids();
            let nslots = slots.len() as u32;
            let mut idx: Vec<u32> = (0..nslots).filter(|i| slots[*i as usize].is_some() && rng.chance(2, 3)).collect();
            match rng.below(8) {
                0 => idx.push(nslots),                                   // the other peer's block has one more transaction
                1 => idx.push(nslots + rng.range(1, 4) as u32),
                2 => idx.push(u32::MAX),
                3 => idx.insert(0, rng.below(nslots as u64 + 1) as u32),   // possibly a prefilled slot, unsorted, repeated
                4 => { idx.reverse(); }
                _ => {}
            }
            let by_sid: HashMap<packed::ProposalShortId, &core::TransactionView> = txs.iter().chain(foreign.iter()).map(|t| (t.proposal_short_id(), t)).collect();
            let mut reply: Vec<core::TransactionView> = idx.iter().filter_map(|i| slots.get(*i as usize).cloned().flatten()).filter_map(|sid| by_sid.get(&sid).map(|t| (*t).clone())).collect();
            match rng.below(8) {
                0 => { reply.pop(); }
                1 => reply.push(foreign[0].clone()),
                2 => { if reply.len() >= 2 { reply.swap(0, 1); } }
                3 => { if !reply.is_empty() { reply[0] = foreign[1].clone(); } }
                _ => {}
            }
            let verdict = match silent(|| ckb_sync::verif_block_transactions_verify(&compact, &idx, &reply)) {
                Err(p) => {
                    out.violation(&format!("BlockTransactionsVerifier panics on a peer's reply ({p}): the pending compact block has {nslots} transaction slot(s), the indexes are {idx:?}"),
                        json!({"stream": "reconstruct", "compact_block": hex(compact.as_slice()), "indexes": idx, "transactions": reply.iter().map(|t| hex(t.data().as_slice())).collect::<Vec<_>>()}), None);
                    "TPanic"
                }
                Ok(st) if st.is_ok() => "TOk",
                Ok(st) => {
                    let code = st.code();
                    if code == ckb_sync::StatusCode::BlockTransactionsLengthIsUnmatchedWithPendingCompactBlock { "TLength" }
                    else if code == ckb_sync::StatusCode::BlockTransactionsShortIdsAreUnmatchedWithPendingCompactBlock { "TUnmatched" }
                    else {
                        out.violation(&format!("unexpected BlockTransactionsVerifier status {:?}", code), json!({"stream": "reconstruct"}), None);
                        "TPanic"
                    }
                }
            };
            out.evaluations += 1;
            out.count("txs_verifier_cases");
            out.count(&format!("txs_verifier_{verdict}"));
            if idx.iter().any(|i| *i >= nslots) { out.count("txs_verifier_index_beyond_pending_block"); }
            let optn = |o: &Option<packed::ProposalShortId>| match o { Some(s) => format!("(Some {})", coq_n(sid_num(s) as u128)), None => "None".to_string() };
            out.files[sh].push(g_recon + 3, format!("mkTV {} {} {} {} {} {}",
                coq_list(&pre, |(ix, _)| coq_n(*ix as u128)),
                coq_list(&short_ids, |s| coq_n(sid_num(s) as u128)),
                coq_list(&slots, optn),
                coq_list(&idx, |x| coq_n(*x as u128)),
                coq_list(&reply, |t| coq_n(sid_num(&t.proposal_short_id()) as u128)),
                verdict));
            out.descs[sh].entry("tverify".into()).or_default().push(json!({"stream": "reconstruct", "compact_block": hex(compact.as_slice()), "indexes": idx, "reply_short_ids": reply.iter().map(|t| sid_num(&t.proposal_short_id())).collect::<Vec<_>>(), "verdict": verdict}));
        }
        let mut d = ctx.clone();
        d["observed"] = json!(obs);
        if out.samples.len() < 3 && ci % 7 == 3 {
            out.samples.push(json!({"stream": "reconstruct", "txs": n, "prefilled": pre.iter().map(|p| p.0).collect::<Vec<_>>(), "short_ids": short_ids.len(), "received": recv.len(), "pool": pool.len(), "uncles": coq_uncles, "observed": obs}));
        }
        out.descs[sh].entry("recon".into()).or_default().push(d);
    }
    drop(node);
}

fn new_out(dir: &std::path::Path, cap: usize) -> Out {
    let header = "From CKB Require Import Codec.Molecule gen.Schema Codec.Compact Codec.UnclesVerify Codec.Rounds Codec.TxsVerify.";
    let files: Vec<CaseFile> = (0..SHARDS)
        .map(|i| {
            let mut cf = CaseFile::new(dir, &format!("cases_{:02}", i), header);
            cf.group("mol", "mol_case", "check_mol");
            cf.group("frame", "N * N * option N * option N * option N", "check_frame");
            cf.group("recon", "recon_case", "check_recon");
            cf.group("uverify", "uvcase", "check_uvcase");
            assert_eq!(cf.group("rounds", "rounds_case", "check_rounds"), rounds::G_ROUNDS);
            cf.group("tverify", "tvcase", "check_tvcase");
            cf
        })
        .collect();
    Out {
        viol: vec![],
        viol_sigs: BTreeMap::new(),
        stats: BTreeMap::new(),
        files,
        descs: (0..SHARDS).map(|_| BTreeMap::new()).collect(),
        shard_payload: vec![0; SHARDS],
        payload_cap: cap,
        next_shard: 0,
        evaluations: 0,
        distinct: BTreeSet::new(),
        samples: vec![],
    }
}

fn find_case(v: &Value) -> Option<(String, Vec<u8>)> {
    match v {
        Value::Object(m) => {
            if let (Some(Value::String(t)), Some(Value::String(b))) = (m.get("type"), m.get("bytes")) {
                return Some((t.clone(), unhex(b)));
            }
            m.values().find_map(find_case)
        }
        Value::Array(a) => a.iter().find_map(find_case),
        _ => None,
    }
}

/// the first recorded exchange of the rounds stream (impl violation detail or correspondence case)
fn find_rounds(v: &Value) -> Option<&Value> {
    match v {
        Value::Object(m) => {
            if m.get("stream").and_then(|s| s.as_str()) == Some("rounds") && m.contains_key("exchange") {
                return Some(v);
            }
            m.values().find_map(find_rounds)
        }
        Value::Array(a) => a.iter().find_map(find_rounds),
        _ => None,
    }
}

fn replay(path: &str) -> ! {
    let v: Value = serde_json::from_str(&fs::read_to_string(path).unwrap()).unwrap();
    let what = v.get("violations").and_then(|x| x.get(0)).and_then(|x| x.get("what")).cloned();
    println!("replaying first case of {path}; recorded: {}", what.unwrap_or(Value::Null));
    let first = v.get("violations").and_then(|x| x.get(0)).or_else(|| v.get("cases").and_then(|x| x.get(0)));
    if let Some(d) = first.and_then(find_rounds) {
        std::process::exit(if rounds::replay_rounds(d) { 1 } else { 0 })
    }
    let Some((ty, bytes)) = find_case(&v) else {
        println!("the first case is not a (type, bytes) message case (reconstruct / frame cases are replayed by re-running the harness with the same VERIF_SEED)");
        std::process::exit(1)
    };
    let Some(te) = TYPES.iter().find(|t| t.name == ty) else {
        println!("unknown type {ty}");
        std::process::exit(1)
    };
    let consensus = ckb_chain_spec::consensus::ConsensusBuilder::default().build();
    let deep = Deep { consensus: &consensus };
    let mut out = new_out(&out_dir("C16").join("replay"), 0);
    let f = te.check;
    let mut bad = false;
    match silent(|| f(&bytes, true)) {
        Ok(vd) => {
            println!("type {} bytes {} -> {} (empty-table accessor panics: {})", te.name, hex(&bytes), verdict_json(&vd), vd.empty_table_panics);
            bad |= vd.empty_table_panics > 0;
        }
        Err(p) => {
            println!("PANIC in accessors: {p}");
            bad = true;
        }
    }
    if let Err(p) = gated(&deep, te.name, &bytes, &mut out) {
        println!("PANIC while the node processes the message: {p}");
        bad = true;
    }
    std::process::exit(if bad { 1 } else { 0 })
}

fn main() {
    if std::env::var("HX_PANIC_VERBOSE").is_err() {
        std::panic::set_hook(Box::new(|_| {}));
    }
    if let Ok(p) = std::env::var("HX_REPLAY") {
        replay(&p);
    }
    let seed = seed();
    let thorough = tier_is_thorough();
    let dir = out_dir("C16");
    for e in fs::read_dir(&dir).unwrap().flatten() {
        let n = e.file_name().to_string_lossy().to_string();
        if n.starts_with("cases_") || n == "summary.json" {
            let _ = fs::remove_file(e.path());
        }
    }
    let mut out = new_out(&dir, if thorough { 330_000 } else { 90_000 });
    let mut rng = Rng::new(seed ^ 0xC16);
    // HX_ONLY=<stream> (development aid): run one stream only
    let only = std::env::var("HX_ONLY").ok();
    let want = |s: &str| only.as_deref().map(|o| o == s).unwrap_or(true);
    if want("messages") {
        stream_messages(&mut rng, &mut out, thorough);
    }
    if want("frames") {
        stream_frames(&mut rng, &mut out, thorough);
    }
    if want("reconstruct") {
        stream_reconstruct(&mut rng, &mut out, thorough);
    }
    if want("rounds") {
        rounds::stream_rounds(&mut rng.fork(), &mut out, thorough);
    }
    for (i, cf) in out.files.iter().enumerate() {
        cf.write().unwrap();
        fs::write(dir.join(format!("cases_{:02}.json", i)), serde_json::to_string(&out.descs[i]).unwrap()).unwrap();
    }
    let _ = fs::remove_dir_all(out_dir("C16").join(format!("scratch-{}", std::process::id())));
    let summary = json!({
        "property": "C16",
        "seed": seed,
        "evaluations": out.evaluations,
        "distinct_nontrivial": out.distinct.len(),
        "rule": "malformed-dominant byte strings for 32 protocol / consensus message types (valid, valid with extra fields, random, 1-3 stacked byte-level mutations; distinct = distinct (type, bytes)); compress/decompress frames (honest around the 1024 threshold, declared length at/over 8 MiB, wrong declared length, flag byte variants, truncated, extended); compact blocks with 1-8 transactions, arbitrary prefilled indexes (1/5 violating CompactBlockVerifier), received / pool / missing transactions, given / local / missing / invalid uncles, matching and non-matching roots, run through the real Relayer::reconstruct_block on a temp-db node; whole exchanges on the real Relayer (CompactBlock, then honest BlockTransactions replies in request order through Relayer::received, 2-8 transactions, 0-3 uncles, 1-4 events, transactions leaving/entering the tx-pool and uncles losing/gaining their status or stored block between the events, new misses below and above the indexes asked before)",
        "distribution": out.stats,
        "samples": out.samples,
        "impl_violations": out.viol,
        "extra_coverage": {"violations_by_signature": out.viol_sigs, "coq_payload_bytes": out.shard_payload.iter().sum::<usize>()},
    });
    fs::write(dir.join("summary.json"), serde_json::to_string_pretty(&summary).unwrap()).unwrap();
    println!("hx-relay: {} evaluations, {} implementation-side violations ({:?})", out.evaluations, out.viol.len(), out.viol_sigs);
    // the node's background services keep threads alive
    std::process::exit(0);
}
